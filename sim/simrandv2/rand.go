// Package rand (import path verif.local/sim/simrandv2) is the simulator's
// stand-in for math/rand/v2: explicitly seeded generators are the real ones,
// the package-level functions draw from a generator seeded by the harness
// (see verif.local/sim/simrand).
package rand

import (
	"math/rand/v2"
	"os"
	"strconv"
	"sync"
)

type (
	Rand    = rand.Rand
	Source  = rand.Source
	PCG     = rand.PCG
	ChaCha8 = rand.ChaCha8
	Zipf    = rand.Zipf
)

func New(src Source) *Rand                                     { return rand.New(src) }
func NewPCG(seed1, seed2 uint64) *PCG                          { return rand.NewPCG(seed1, seed2) }
func NewChaCha8(seed [32]byte) *ChaCha8                        { return rand.NewChaCha8(seed) }
func NewZipf(r *Rand, s float64, v float64, imax uint64) *Zipf { return rand.NewZipf(r, s, v, imax) }

var procSeed = func() uint64 {
	if v, err := strconv.ParseUint(os.Getenv("VERIF_PROC_RAND"), 10, 64); err == nil {
		return v
	}
	return 1
}()

var (
	mu    sync.Mutex
	g     = rand.New(rand.NewPCG(procSeed, 2))
	draws int64
)

// SetSeed starts a run. Harness only.
func SetSeed(s uint64) {
	mu.Lock()
	g = rand.New(rand.NewPCG(procSeed, s))
	mu.Unlock()
}

func Draws() int64 { mu.Lock(); defer mu.Unlock(); return draws }

func with[T any](f func(*rand.Rand) T) T {
	mu.Lock()
	defer mu.Unlock()
	draws++
	return f(g)
}

func Int() int                { return with(func(r *rand.Rand) int { return r.Int() }) }
func Int32() int32            { return with(func(r *rand.Rand) int32 { return r.Int32() }) }
func Int64() int64            { return with(func(r *rand.Rand) int64 { return r.Int64() }) }
func Uint32() uint32          { return with(func(r *rand.Rand) uint32 { return r.Uint32() }) }
func Uint64() uint64          { return with(func(r *rand.Rand) uint64 { return r.Uint64() }) }
func IntN(n int) int          { return with(func(r *rand.Rand) int { return r.IntN(n) }) }
func Int32N(n int32) int32    { return with(func(r *rand.Rand) int32 { return r.Int32N(n) }) }
func Int64N(n int64) int64    { return with(func(r *rand.Rand) int64 { return r.Int64N(n) }) }
func Uint32N(n uint32) uint32 { return with(func(r *rand.Rand) uint32 { return r.Uint32N(n) }) }
func Uint64N(n uint64) uint64 { return with(func(r *rand.Rand) uint64 { return r.Uint64N(n) }) }
func UintN(n uint) uint       { return with(func(r *rand.Rand) uint { return r.UintN(n) }) }
func Float64() float64        { return with(func(r *rand.Rand) float64 { return r.Float64() }) }
func Float32() float32        { return with(func(r *rand.Rand) float32 { return r.Float32() }) }
func Perm(n int) []int        { return with(func(r *rand.Rand) []int { return r.Perm(n) }) }
func NormFloat64() float64    { return with(func(r *rand.Rand) float64 { return r.NormFloat64() }) }
func ExpFloat64() float64     { return with(func(r *rand.Rand) float64 { return r.ExpFloat64() }) }
func Shuffle(n int, swap func(i, j int)) {
	with(func(r *rand.Rand) int { r.Shuffle(n, swap); return 0 })
}

type intType interface {
	~int | ~int8 | ~int16 | ~int32 | ~int64 | ~uint | ~uint8 | ~uint16 | ~uint32 | ~uint64 | ~uintptr
}

// N returns a pseudo-random number in [0, n) for any integer type.
func N[Int intType](n Int) Int {
	if n <= 0 {
		panic("invalid argument to N")
	}
	return Int(with(func(r *rand.Rand) uint64 { return r.Uint64N(uint64(n)) }))
}
