// Package time (import path verif.local/sim/simtime) is the simulator's
// stand-in for the standard library's time package. gopatch reads no clock
// today; the seam exists so that a changed gopatch that does (a seed taken
// from the time of day, a timestamp in a header, a deadline) reads the
// simulated clock, which the harness sets per run and per process.
//
// Types, constants and pure functions are those of the real package; only the
// functions that observe or wait for the passage of time are replaced. Sleep
// advances the simulated clock and returns at once. Timers and tickers are
// served by the real package (gopatch has none, and a changed gopatch that
// waits on one is bounded by the coordinator's watchdog).
package time

import (
	"os"
	"strconv"
	"sync/atomic"
	"time"
)

type (
	Time       = time.Time
	Duration   = time.Duration
	Month      = time.Month
	Weekday    = time.Weekday
	Location   = time.Location
	Timer      = time.Timer
	Ticker     = time.Ticker
	ParseError = time.ParseError
)

const (
	Nanosecond  = time.Nanosecond
	Microsecond = time.Microsecond
	Millisecond = time.Millisecond
	Second      = time.Second
	Minute      = time.Minute
	Hour        = time.Hour

	Layout      = time.Layout
	ANSIC       = time.ANSIC
	UnixDate    = time.UnixDate
	RubyDate    = time.RubyDate
	RFC822      = time.RFC822
	RFC822Z     = time.RFC822Z
	RFC850      = time.RFC850
	RFC1123     = time.RFC1123
	RFC1123Z    = time.RFC1123Z
	RFC3339     = time.RFC3339
	RFC3339Nano = time.RFC3339Nano
	Kitchen     = time.Kitchen
	Stamp       = time.Stamp
	StampMilli  = time.StampMilli
	StampMicro  = time.StampMicro
	StampNano   = time.StampNano
	DateTime    = time.DateTime
	DateOnly    = time.DateOnly
	TimeOnly    = time.TimeOnly

	January   = time.January
	February  = time.February
	March     = time.March
	April     = time.April
	May       = time.May
	June      = time.June
	July      = time.July
	August    = time.August
	September = time.September
	October   = time.October
	November  = time.November
	December  = time.December

	Sunday    = time.Sunday
	Monday    = time.Monday
	Tuesday   = time.Tuesday
	Wednesday = time.Wednesday
	Thursday  = time.Thursday
	Friday    = time.Friday
	Saturday  = time.Saturday
)

var (
	UTC   = time.UTC
	Local = time.UTC // the simulated machine keeps UTC
)

// ---------------------------------------------------------------------------
// the simulated clock

// procEpoch is the time at which this process "started": VERIF_PROC_CLOCK
// (seconds since the Unix epoch) or a fixed default. Package-level
// initialisers of gopatch that read the clock see this value.
var procEpoch = func() int64 {
	if v, err := strconv.ParseInt(os.Getenv("VERIF_PROC_CLOCK"), 10, 64); err == nil && v > 0 {
		return v * 1e9
	}
	return 1_600_000_000 * 1e9
}()

var (
	base  atomic.Int64 // start of the current run, Unix nanoseconds
	ticks atomic.Int64 // nanoseconds elapsed in the current run
	reads atomic.Int64 // how often the clock was read (a probe for the harness)
)

func init() { base.Store(procEpoch) }

// SetClock starts a run: the clock reads procEpoch+offset and stands still
// except for one microsecond per reading and for Sleep. Harness only.
func SetClock(offset Duration) {
	base.Store(procEpoch + int64(offset))
	ticks.Store(0)
}

// Reads reports how often gopatch has read the clock since process start.
func Reads() int64 { return reads.Load() }

func Now() Time {
	reads.Add(1)
	return time.Unix(0, base.Load()+ticks.Add(1000)).UTC()
}

func Since(t Time) Duration { return Now().Sub(t) }
func Until(t Time) Duration { return t.Sub(Now()) }

// Sleep advances the simulated clock; no real time passes.
func Sleep(d Duration) {
	if d > 0 {
		ticks.Add(int64(d))
	}
}

// ---------------------------------------------------------------------------
// pure functions

func Unix(sec, nsec int64) Time                   { return time.Unix(sec, nsec) }
func UnixMilli(msec int64) Time                   { return time.UnixMilli(msec) }
func UnixMicro(usec int64) Time                   { return time.UnixMicro(usec) }
func Parse(layout, value string) (Time, error)    { return time.Parse(layout, value) }
func ParseDuration(s string) (Duration, error)    { return time.ParseDuration(s) }
func FixedZone(name string, off int) *Location    { return time.FixedZone(name, off) }
func LoadLocation(name string) (*Location, error) { return time.LoadLocation(name) }
func Date(year int, month Month, day, hour, min, sec, nsec int, loc *Location) Time {
	return time.Date(year, month, day, hour, min, sec, nsec, loc)
}
func ParseInLocation(layout, value string, loc *Location) (Time, error) {
	return time.ParseInLocation(layout, value, loc)
}

// ---------------------------------------------------------------------------
// timers: real ones (see the package comment)

func After(d Duration) <-chan Time          { return time.After(d) }
func AfterFunc(d Duration, f func()) *Timer { return time.AfterFunc(d, f) }
func NewTimer(d Duration) *Timer            { return time.NewTimer(d) }
func NewTicker(d Duration) *Ticker          { return time.NewTicker(d) }
func Tick(d Duration) <-chan Time           { return time.Tick(d) }
