// Package log (import path verif.local/sim/simlog) stands in for the standard
// log package in the few dependency files that the simulator instruments
// (golang.org/x/tools/internal/imports/sortimports.go): their diagnostics are
// counted, not printed - a loop that logs on every iteration would otherwise
// push gigabytes through the worker's stderr before the step budget ends it.
package log

import "sync/atomic"

var calls atomic.Int64

// Calls reports how many log calls were swallowed.
func Calls() int64 { return calls.Load() }

func Printf(format string, v ...any) { calls.Add(1) }
func Println(v ...any)               { calls.Add(1) }
func Print(v ...any)                 { calls.Add(1) }
