package harness

import (
	"fmt"
	"strings"
)

// Generated families of C08 beyond the corpus: (ill-cross) the cross product
// of '-' sides and '+' sides of different syntactic kinds sharing metavariables
// and elisions, so that every kind of '...' and metavariable meets every kind
// of position; (scale) small but deeply nested or wide targets, where only a
// super-polynomial algorithm exceeds the step budget; (two-change) pairs of
// changes that both match one file, the first removing code and comments the
// second one's machinery later walks over.

type c08Side struct {
	name string
	text string // pattern lines, without the -/+ prefix
	src  string // (minus sides only) statements of a function body that the pattern matches
}

var c08Minus = []c08Side{
	{"call-x", "foo(x)", "foo(1 + 2)"},
	{"call-dots", "foo(...)", "foo(1, g(2))"},
	{"call-x-dots", "foo(x, ...)", "foo(a.b, 2, 3)"},
	{"call-variadic", "foo(x...)", "foo(xs...)"},
	{"for-dots", "for ... {\n  foo(x)\n}", "for i := 0; i < n; i++ {\n\t\tfoo(i)\n\t}"},
	{"for-range-dots", "for ... {\n  ...\n  foo(x)\n}", "for _, v := range vs {\n\t\tpre()\n\t\tfoo(v)\n\t}"},
	{"stmt-dots", "pre()\n...\nfoo(x)", "pre()\n\tmid()\n\tfoo(3)"},
	{"block-dots", "{\n  ...\n  foo(x)\n}", "{\n\t\tmid()\n\t\tfoo(4)\n\t}"},
	{"define", "y := foo(x)", "v := foo(1)"},
	{"if-dots", "if x {\n  ...\n}", "if a > b {\n\t\tg()\n\t}"},
	{"funclit-dots", "bar(func(...) {\n  foo(x)\n})", "bar(func(a int) {\n\t\tfoo(a)\n\t})"},
	{"complit", "Cfg{y: x}", "_ = Cfg{Name: \"n\"}"},
	{"complit-dots", "Cfg{..., y: x, ...}", "_ = Cfg{A: 1, Name: \"n\", B: 2}"},
	{"return", "return x", "return 1"},
	{"method", "y.foo(x)", "obj.foo(2)"},
	{"var-decl", "var y = foo(x)", "var q = foo(7)"},
	{"defer", "defer foo(x)", "defer foo(c)"},
	{"selector", "x.y", "_ = cfg.Name"},
	{"goto-label", "goto y", "goto done\ndone:\n\tfoo(0)"},
	{"switch-dots", "switch x {\n  ...\n}", "switch k {\n\tcase 1:\n\t\tg()\n\t}"},
	{"send", "y <- x", "ch <- 1"},
	{"index", "x[y]", "_ = m[k]"},
}

var c08Plus = []c08Side{
	{"call-x", "bar(x)", ""},
	{"call-dots", "bar(...)", ""},
	{"call-x-dots", "bar(x, ...)", ""},
	{"call-dots-dots", "bar(..., x, ...)", ""},
	{"call-variadic", "bar(x...)", ""},
	{"for-dots", "for ... {\n  bar(x)\n}", ""},
	{"for-dots-body-dots", "for ... {\n  ...\n}", ""},
	{"for-dots-body-decl-x", "for ... {\n  var x int\n}", ""},
	{"for-dots-body-label-x", "for ... {\n  x: bar()\n}", ""},
	{"block-dots", "{\n  ...\n  bar()\n}", ""},
	{"stmt-dots", "pre2()\n...\nbar(x)", ""},
	{"define", "y := bar(x)", ""},
	{"if-dots", "if x {\n  ...\n}", ""},
	{"funclit-dots", "bar(func(...) {\n  ...\n})", ""},
	{"funclit-param-x", "bar(func(x int) {})", ""},
	{"funclit-var-x", "bar(func() { var x int })", ""},
	{"complit", "Cfg{y: x}", ""},
	{"complit-key-x", "Cfg{x: 1}", ""},
	{"complit-dots", "Cfg{...}", ""},
	{"return", "return x", ""},
	{"method", "y.bar(x)", ""},
	{"selector-x", "a.x", ""},
	{"selector-y", "x.y", ""},
	{"var-decl", "var y = x", ""},
	{"var-type-x", "var z x", ""},
	{"range-key-x", "for x = range z {\n}", ""},
	{"range-dots", "for y := range x {\n  ...\n}", ""},
	{"label-x", "x: bar()", ""},
	{"label-y", "y: bar(x)", ""},
	{"goto-x", "goto x", ""},
	{"go-x", "go x", ""},
	{"call-y", "y(x)", ""},
	{"typeswitch", "switch y := x.(type) {\n  ...\n}", ""},
	{"select-dots", "select {\n  ...\n}", ""},
	{"struct-lit", "var _ = struct{ y x }{}", ""},
	{"send", "y <- x", ""},
	{"incdec", "x++", ""},
	{"assign-lhs", "x = 1", ""},
	{"addr", "&x", ""},
	{"slice-x", "y[x:...]", ""},
	{"generic-inst", "y[x](...)", ""},
	{"nothing", "", ""},
}

func prefixLines(text, pfx string) string {
	if text == "" {
		return ""
	}
	var sb strings.Builder
	for _, l := range strings.Split(text, "\n") {
		sb.WriteString(pfx + l + "\n")
	}
	return sb.String()
}

func c08IllCrossN() int { return len(c08Minus)*len(c08Plus) + c08EmptyListN() }

// ---- lists that "..." can leave empty -----------------------------------------
//
// Every construct of the Go syntax that holds a list, with the elision on
// either end of the list or on both, against a target where the "..." stands
// for no element at all, and a "+" side that keeps nothing but the elision (or
// nothing at all): the replacement is then a node with an empty list in a place
// where go/ast, the printer or the next change's matcher expect an element.

type c08ListCtx struct {
	name      string
	pat       string // pattern with LIST where the list goes
	elem      string // pattern for one element
	sep       string
	src       string // target statement with LIST
	srcElem   string
	srcOthers []string
}

var c08ListCtxs = []c08ListCtx{
	{"define-lhs", "LIST := foo()", "y", ", ", "LIST := foo()", "err", []string{"a", "b"}},
	{"define-rhs", "v := LIST", "x", ", ", "v := LIST", "g(1)", nil},
	{"assign-lhs", "LIST = foo()", "y", ", ", "LIST = foo()", "err", []string{"a", "b"}},
	{"assign-rhs", "v, w = LIST", "x", ", ", "v, w = LIST", "g(1)", []string{"2"}},
	{"return", "return LIST", "x", ", ", "return LIST", "g(1)", nil},
	{"call-args", "foo(LIST)", "x", ", ", "foo(LIST)", "g(1)", []string{"2", "3"}},
	{"method-args", "y.foo(LIST)", "x", ", ", "obj.foo(LIST)", "g(1)", []string{"2"}},
	{"defer-args", "defer foo(LIST)", "x", ", ", "defer foo(LIST)", "g(1)", []string{"2"}},
	{"complit-elts", "Cfg{LIST}", "x", ", ", "_ = Cfg{LIST}", "g(1)", []string{"2"}},
	{"slice-lit", "[]int{LIST}", "x", ", ", "_ = []int{LIST}", "g(1)", []string{"2"}},
	{"funclit-params", "bar(func(LIST) {})", "y int", ", ", "bar(func(LIST) {})", "n int", []string{"s string"}},
	{"funclit-results", "bar(func() (LIST) { return })", "y int", ", ", "bar(func() (LIST) { return })", "n int", []string{"s string"}},
	{"var-names", "var LIST = foo()", "y", ", ", "var LIST = foo()", "err", []string{"a"}},
	{"var-values", "var v = LIST", "x", ", ", "var v = LIST", "g(1)", nil},
	{"case-list", "switch y {\ncase LIST:\n}", "x", ", ", "switch k {\n\tcase LIST:\n\t}", "1", []string{"2"}},
	{"generic-args", "gen[LIST](1)", "y", ", ", "gen[LIST](1)", "int", []string{"string"}},
	{"block-stmts", "{\nLIST\n}", "foo(x)", "\n", "{\n\t\tLIST\n\t}", "foo(1)", []string{"bar()"}},
	{"if-body", "if y {\nLIST\n}", "foo(x)", "\n", "if ok {\n\t\tLIST\n\t}", "foo(1)", []string{"bar()"}},
	{"struct-fields", "var _ = struct{\nLIST\n}{}", "y int", "\n", "var _ = struct {\n\t\tLIST\n\t}{}", "n int", []string{"s string"}},
	{"go-args", "go foo(LIST)", "x", ", ", "go foo(LIST)", "g(1)", nil},
}

// forms of the list on the "-" side (E the element) and on the "+" side
var c08ListMinus = []string{"..., E", "E, ...", "..., E, ...", "...", "E", "E, ..., E"}
var c08ListPlus = []string{"...", "", "..., ...", "E", "..., E", "E, ..."}

func c08EmptyListN() int { return len(c08ListCtxs) * len(c08ListMinus) * len(c08ListPlus) * 2 }

func c08EmptyList(j int) (name string, patch, src []byte) {
	wide := j%2 == 1
	j /= 2
	pf := c08ListPlus[j%len(c08ListPlus)]
	j /= len(c08ListPlus)
	mf := c08ListMinus[j%len(c08ListMinus)]
	cx := c08ListCtxs[(j/len(c08ListMinus))%len(c08ListCtxs)]
	form := func(f string) string {
		f = strings.ReplaceAll(f, ", ", cx.sep)
		f = strings.ReplaceAll(f, "E", cx.elem)
		return strings.ReplaceAll(cx.pat, "LIST", f)
	}
	pt := "@@\nvar x expression\nvar y identifier\n@@\n" + prefixLines(form(mf), "-") + prefixLines(form(pf), "+")
	sep := cx.sep
	if sep == "\n" {
		sep = "\n\t\t"
	}
	list := cx.srcElem
	if wide {
		switch {
		case strings.HasPrefix(mf, "...") && len(cx.srcOthers) > 0:
			list = strings.Join(cx.srcOthers, sep) + sep + list
		case len(cx.srcOthers) > 0:
			list = list + sep + strings.Join(cx.srcOthers, sep)
		}
	}
	s := "package sample\n\nfunc f() int {\n\t" + strings.ReplaceAll(cx.src, "LIST", list) + "\n\treturn 0\n}\n"
	w := "one"
	if wide {
		w = "several"
	}
	return "empty-list/" + cx.name + "/" + mf + "->" + pf + "/" + w, []byte(pt), []byte(s)
}

// c08IllCross returns the j-th (patch, source) pair of the cross product.
func c08IllCross(j int) (name string, patch, src []byte) {
	if j >= len(c08Minus)*len(c08Plus) {
		return c08EmptyList(j - len(c08Minus)*len(c08Plus))
	}
	m := c08Minus[(j/len(c08Plus))%len(c08Minus)]
	p := c08Plus[j%len(c08Plus)]
	pt := "@@\nvar x expression\nvar y identifier\n@@\n" + prefixLines(m.text, "-") + prefixLines(p.text, "+")
	s := "package sample\n\nfunc f() int {\n\t" + m.src + "\n\treturn 0\n}\n"
	return m.name + "->" + p.name, []byte(pt), []byte(s)
}

// ---- scale ------------------------------------------------------------------

type c08ScaleShape struct {
	name string
	gen  func(d int) string // a function body statement (or several) of nesting/width d
}

func nest(d int, open, close, inner string) string {
	return strings.Repeat(open, d) + inner + strings.Repeat(close, d)
}

var c08ScaleShapes = []c08ScaleShape{
	{"nested-calls", func(d int) string { return "_ = " + nest(d, "f(", ")", "inner") }},
	{"nested-parens", func(d int) string { return "_ = " + nest(d, "(", ")", "inner") }},
	{"nested-unary", func(d int) string { return "_ = " + nest(d, "-(", ")", "inner") }},
	{"nested-index", func(d int) string { return "_ = inner" + strings.Repeat("[0]", d) }},
	{"nested-selectors", func(d int) string { return "_ = inner" + strings.Repeat(".a", d) }},
	{"nested-method-chain", func(d int) string { return "inner" + strings.Repeat(".m(1)", d) }},
	{"binary-chain", func(d int) string { return "_ = inner" + strings.Repeat(" + 1", d) }},
	{"nested-complit", func(d int) string { return "_ = " + nest(d, "T{", "}", "inner") }},
	{"nested-slices", func(d int) string { return "_ = " + nest(d, "[]interface{}{", "}", "inner") }},
	{"nested-if", func(d int) string { return nest(d, "if a {\n", "\n}", "inner()") }},
	{"nested-for", func(d int) string { return nest(d, "for {\n", "\n}", "inner()") }},
	{"nested-blocks", func(d int) string { return nest(d, "{\n", "\n}", "inner()") }},
	{"nested-funclits", func(d int) string { return nest(d, "func() {\n", "\n}()", "inner()") }},
	{"nested-switch", func(d int) string { return nest(d, "switch {\ncase a:\n", "\n}", "inner()") }},
	{"nested-else-if", func(d int) string {
		s := "if a0 {\n}"
		for i := 1; i < d; i++ {
			s += fmt.Sprintf(" else if a%d {\n}", i)
		}
		return s + " else {\ninner()\n}"
	}},
	{"wide-args", func(d int) string { return "f(inner" + strings.Repeat(", 1", 4*d) + ")" }},
	{"wide-stmts", func(d int) string { return strings.Repeat("g()\n", 4*d) + "inner()\n" + strings.Repeat("g()\n", 4*d) }},
	{"wide-same-calls", func(d int) string { return strings.Repeat("inner()\n", 4*d) }},
	{"nested-types", func(d int) string { return "var _ " + nest(d, "struct{ a ", " }", "inner") }},
	{"nested-func-types", func(d int) string { return "var _ " + nest(d, "func(", ")", "inner") }},
	{"nested-chan-types", func(d int) string { return "var _ " + strings.Repeat("chan ", d) + "inner" }},
	{"nested-pointers", func(d int) string { return "var _ " + strings.Repeat("*", d) + "inner" }},
}

var c08ScalePatches = []struct{ name, patch string }{
	{"ident", "@@\n@@\n-inner\n+changed\n"},
	{"ident-grow", "@@\n@@\n-inner\n+changed.more\n"},
	{"call-unwrap", "@@\nvar x expression\n@@\n-f(x)\n+x\n"},
	{"call-dots", "@@\n@@\n-f(...)\n+g(...)\n"},
	{"stmt-call", "@@\n@@\n-inner()\n+changed()\n"},
	{"if-dots", "@@\nvar c expression\n@@\n if c {\n   ...\n-  inner()\n+  changed()\n }\n"},
	{"block-dots-many", "@@\n@@\n {\n   ...\n-  inner()\n   ...\n }\n"},
	{"two-changes", "@@\n@@\n-inner\n+mid\n\n@@\n@@\n-mid\n+changed\n"},
}

var c08ScaleDepths = []int{6, 12, 20, 28, 40, 64}

func c08ScaleN() int { return len(c08ScaleShapes) * len(c08ScalePatches) * len(c08ScaleDepths) }

func c08Scale(j int) (name string, patch, src []byte) {
	d := c08ScaleDepths[j%len(c08ScaleDepths)]
	j /= len(c08ScaleDepths)
	p := c08ScalePatches[j%len(c08ScalePatches)]
	sh := c08ScaleShapes[(j/len(c08ScalePatches))%len(c08ScaleShapes)]
	s := "package sample\n\nfunc f() {\n" + sh.gen(d) + "\n}\n"
	return fmt.Sprintf("%s x %s depth %d", p.name, sh.name, d), []byte(p.patch), []byte(s)
}

// ---- two-change ---------------------------------------------------------------

// first changes remove or replace code that carries comments; second changes
// exercise machinery that walks the file afterwards (imports, renames, elisions)
var c08First = []struct{ name, patch string }{
	{"delete-if", "@@\n@@\n-if cond {\n-  ...\n-}\n"},
	{"replace-if", "@@\n@@\n-if cond {\n-  ...\n-}\n+second(1)\n"},
	{"delete-call-dots", "@@\n@@\n-trace(...)\n"},
	{"replace-call-dots", "@@\n@@\n-trace(...)\n+second(1)\n"},
	{"delete-between", "@@\n@@\n setup()\n-trace(...)\n run()\n"},
	{"unwrap-funclit", "@@\n@@\n-trace(func() {\n-  ...\n-})\n+second(1)\n"},
	{"delete-func", "@@\n@@\n-func helper() {\n-  ...\n-}\n"},
	{"rename-keeps", "@@\n@@\n-cond\n+cond2\n"},
	// an expression change also reaches the literals and names of the import
	// declarations; what it leaves there is what the next change's import
	// machinery has to cope with
	{"string-lit-to-number", "@@\n@@\n-\"os\"\n+42\n"},
	{"string-lit-to-call", "@@\n@@\n-\"os\"\n+name()\n"},
	{"string-lit-to-empty", "@@\n@@\n-\"os\"\n+\"\"\n"},
	{"string-lit-to-raw", "@@\n@@\n-\"os\"\n+`vf/raw`\n"},
	{"string-lit-to-char", "@@\n@@\n-\"os\"\n+'o'\n"},
	{"ident-os-to-call", "@@\n@@\n-os\n+pkg()\n"},
}

var c08Second = []struct{ name, patch string }{
	{"add-import", "@@\n@@\n+import \"fmt\"\n\n-second(1)\n+fmt.Println(1)\n"},
	{"add-named-import", "@@\n@@\n+import f2 \"fmt\"\n\n-second(1)\n+f2.Println(1)\n"},
	{"add-import-rename", "@@\n@@\n+import \"fmt\"\n\n-oldName()\n+fmt.Println()\n"},
	{"remove-import", "@@\n@@\n-import \"os\"\n\n-os.Exit(1)\n+second(2)\n"},
	{"replace-import", "@@\n@@\n-import \"os\"\n+import \"vf/os2\"\n\n-os.Exit(1)\n+os2.Exit(1)\n"},
	{"rename", "@@\n@@\n-oldName()\n+newName()\n"},
	{"rename-dots", "@@\n@@\n func g() {\n   ...\n-  oldName()\n+  newName()\n   ...\n }\n"},
	{"second-again", "@@\n@@\n-second(1)\n+third(1)\n"},
}

var c08TwoSrcs = []struct{ name, src string }{
	{"no-imports-comment-first", "package a\n\nfunc g() {\n\tsetup()\n\ttrace(func() {\n\t\t// c\n\t\tdump()\n\t})\n\trun()\n\tif cond {\n\t\t// only comment\n\t\tfoo()\n\t}\n\toldName()\n\tos.Exit(1)\n}\n\n// helper doc\nfunc helper() {\n\t// inside helper\n}\n"},
	{"with-import", "package a\n\nimport \"os\"\n\nfunc g() {\n\tsetup()\n\ttrace(func() {\n\t\t// c\n\t})\n\trun()\n\tif cond {\n\t\t// c2\n\t\tfoo() // trailing\n\t}\n\toldName()\n\tos.Exit(1)\n}\n\nfunc helper() {\n\t/* block */\n}\n"},
	{"pkg-comment-sameline", "package a // same line\n\nfunc g() {\n\tif cond {\n\t\t// c\n\t\tfoo()\n\t}\n\tsetup()\n\ttrace(1) // t\n\trun()\n\toldName()\n\tos.Exit(1)\n}\n\nfunc helper() {}\n"},
	{"doc-before-pkg", "// Package a does things.\npackage a\n\n// g doc\nfunc g() {\n\tif cond { // open\n\t\tfoo()\n\t\t// close\n\t}\n\tsetup()\n\ttrace(/* in */ 1)\n\trun()\n\toldName()\n\tos.Exit(1)\n}\n\n/* helper */\nfunc helper() {\n}\n"},
}

func init() {
	// a long licence header in front of a parenthesised import group: positions in
	// the target lie far beyond anything in the patch
	c08TwoSrcs = append(c08TwoSrcs, struct{ name, src string }{"long-header-import-group",
		longLicence + "package a\n\nimport (\n\t\"fmt\"\n\t\"os\"\n\t\"strings\"\n)\n\nfunc g() {\n\tfmt.Println(strings.ToUpper(\"x\"))\n\tsetup()\n\ttrace(1)\n\trun()\n\tif cond {\n\t\t// c\n\t\tfoo()\n\t}\n\toldName()\n\tos.Exit(1)\n}\n\nfunc helper() {}\n"})
}

func c08TwoChangeN() int { return len(c08First) * len(c08Second) * len(c08TwoSrcs) * 2 }

func c08TwoChange(j int) (name string, patches [][]byte, src []byte) {
	split := j%2 == 1
	j /= 2
	s := c08TwoSrcs[j%len(c08TwoSrcs)]
	j /= len(c08TwoSrcs)
	b := c08Second[j%len(c08Second)]
	a := c08First[(j/len(c08Second))%len(c08First)]
	name = a.name + " then " + b.name + " on " + s.name
	if split {
		return name + " (two -p)", [][]byte{[]byte(a.patch), []byte(b.patch)}, []byte(s.src)
	}
	return name, [][]byte{[]byte(a.patch + "\n" + b.patch)}, []byte(s.src)
}

// ---- bulk -----------------------------------------------------------------------

// long lists (statements, literal elements, arguments, declarations): memory and
// steps must stay far from quadratic in the list length
var c08BulkShapes = []struct {
	name string
	gen  func(n int) string // whole file
}{
	{"stmts", func(n int) string {
		var sb strings.Builder
		sb.WriteString("package sample\n\nfunc f() {\n")
		for i := 0; i < n; i++ {
			fmt.Fprintf(&sb, "\tbaz(%d)\n", i)
		}
		sb.WriteString("\tinner()\n}\n")
		return sb.String()
	}},
	{"literal", func(n int) string {
		var sb strings.Builder
		sb.WriteString("package sample\n\nvar table = []int{\n")
		for i := 0; i < n; i++ {
			fmt.Fprintf(&sb, "\t%d,\n", i)
		}
		sb.WriteString("}\n\nfunc f() {\n\tinner()\n}\n")
		return sb.String()
	}},
	{"args", func(n int) string {
		var sb strings.Builder
		sb.WriteString("package sample\n\nfunc f() {\n\tg(inner")
		for i := 0; i < n; i++ {
			fmt.Fprintf(&sb, ", %d", i)
		}
		sb.WriteString(")\n\tinner()\n}\n")
		return sb.String()
	}},
	{"funcs", func(n int) string {
		var sb strings.Builder
		sb.WriteString("package sample\n\n")
		for i := 0; i < n/4; i++ {
			fmt.Fprintf(&sb, "func f%d() {\n\tbaz(%d)\n}\n\n", i, i)
		}
		sb.WriteString("func last() {\n\tinner()\n}\n")
		return sb.String()
	}},
	{"struct-fields", func(n int) string {
		var sb strings.Builder
		sb.WriteString("package sample\n\ntype T struct {\n")
		for i := 0; i < n; i++ {
			fmt.Fprintf(&sb, "\tF%d int\n", i)
		}
		sb.WriteString("}\n\nfunc f() {\n\tinner()\n}\n")
		return sb.String()
	}},
}

var c08BulkPatches = []struct{ name, patch string }{
	{"stmt-call", "@@\n@@\n-inner()\n+changed()\n"},
	{"ident", "@@\n@@\n-inner\n+changed\n"},
	{"func-dots", "@@\n@@\n func f() {\n   ...\n-  inner()\n+  changed()\n }\n"},
	// EVERY element of the long list is rewritten, not one
	{"every-call", "@@\nvar v expression\n@@\n-baz(v)\n+registry.Add(v)\n"},
}

var c08BulkSizes = []int{2000, 8000}

func c08BulkN() int { return len(c08BulkShapes) * len(c08BulkPatches) * len(c08BulkSizes) }

func c08Bulk(j int) (name string, patch, src []byte) {
	n := c08BulkSizes[j%len(c08BulkSizes)]
	j /= len(c08BulkSizes)
	p := c08BulkPatches[j%len(c08BulkPatches)]
	sh := c08BulkShapes[(j/len(c08BulkPatches))%len(c08BulkShapes)]
	if p.name == "every-call" {
		// rewriting every element costs quadratic time in today's gopatch (the
		// changed regions are kept in a sorted interval set): sizes at which that
		// stays far below the step budget; what is judged is the GROWTH between
		// n/2 and n, see c08GrowthHalf
		n /= 8
	}
	return fmt.Sprintf("%s x %d %s", p.name, n, sh.name), []byte(p.patch), []byte(sh.gen(n))
}

// c08GrowthHalf returns the target of half the size for a bulk case whose name
// says "every-call x <n> <shape>", or nil.
func c08GrowthHalf(name string) []byte {
	var n int
	var shape string
	if _, err := fmt.Sscanf(name, "every-call x %d %s", &n, &shape); err != nil {
		return nil
	}
	for _, sh := range c08BulkShapes {
		if sh.name == shape {
			return []byte(sh.gen(n / 2))
		}
	}
	return nil
}

// ---- command-line forms ---------------------------------------------------------

// argument vectors around the edges of the option parser; "P" stands for the
// patch file, "F" for a target file, "D" for the project directory
var c08CLIForms = [][]string{
	{},
	{"--version"},
	{"-h"},
	{"--help"},
	{"--version", "-p", "P", "F"},
	{"-p", "P"},
	{"-p"},
	{"-P"},
	{"F"},
	{"D"},
	{"--no-such-flag", "-p", "P", "F"},
	{"-p", "P", "--", "F"},
	{"-p", "P", "--", "-d"},
	{"-p", "P", "-d", "--print-only", "-v", "--skip-generated", "--skip-import-processing", "F"},
	{"-dv", "-p", "P", "F"},
	{"-p=P", "F"},
	{"--patch", "P", "F"},
	{"--patch=P", "F"},
	{"--patches-file", "P", "F"},
	{"-p", "P", "-p", "P", "F", "F"},
	{"-p", "", "F"},
	{"-p", "P", ""},
	{"-p", "P", "..."},
	{"-p", "P", "/"},
	{"-p", "P", "F", "-p"},
	{"-p", "D", "F"},
	{"-P", "D", "F"},
	{"-p", "F", "F"},
	{"-", "F"},
	{"-p", "-", "F"},
	{"-p", "P", "-"},
	{"--diff=false", "-p", "P", "F"},
	{"-d", "-d", "-d", "-p", "P", "F"},
	{"-p", "P", "F", "--print-only=maybe"},
}

func c08CLIFormsN() int { return len(c08CLIForms) * 3 }

// ---- token insertions in the metavariables section ---------------------------
//
// The byte-substitution family never makes a patch longer. Here every token of
// a small alphabet is INSERTED at every token boundary of a metavariables
// section with two declarations (one of them terminated by a semicolon), which
// yields the doubled separators, dangling commas and stray keywords that a
// hand-written scanner meets in practice.
func init() {
	pieces := []string{"var", " ", "x", " ", "expression", ";", "\n", "var", " ", "y", ",", " ", "z", " ", "identifier", "\n"}
	tokens := []string{";", ",", "var", "(", ")", "=", "expression", "identifier", "x", "\n", "@@", "...", ".", "\"", "/*", "//", "\x00"}
	for at := 0; at <= len(pieces); at++ {
		if at > 0 && at < len(pieces) && pieces[at] == " " && pieces[at-1] != " " {
			// one boundary per gap
			continue
		}
		for _, tk := range tokens {
			meta := strings.Join(pieces[:at], "") + tk + strings.Join(pieces[at:], "")
			name := fmt.Sprintf("meta-insert-%q-at-%d", tk, at)
			c08IllTyped = append(c08IllTyped, struct{ name, patch, stmt string }{name, "@@\n" + meta + "@@\n-foo(x, y, z)\n+bar(z, y, x)\n", "foo(1 + 2, a, b)"})
		}
	}
}
