// Package parser (import path verif.local/sim/simparser) stands in for
// go/parser in the instrumented copy of gopatch. Parsing is the real parser's;
// the only difference is where source text comes from when the caller passes
// none: go/parser would read the named file (or directory) from the real
// filesystem, behind the simulator's back - here it is read from the world.
package parser

import (
	"go/ast"
	"go/parser"
	"go/token"
	"io/fs"
	"strings"

	os "verif.local/sim/simos"
)

type Mode = parser.Mode

const (
	PackageClauseOnly    = parser.PackageClauseOnly
	ImportsOnly          = parser.ImportsOnly
	ParseComments        = parser.ParseComments
	Trace                = parser.Trace
	DeclarationErrors    = parser.DeclarationErrors
	SpuriousErrors       = parser.SpuriousErrors
	SkipObjectResolution = parser.SkipObjectResolution
	AllErrors            = parser.AllErrors
)

func ParseFile(fset *token.FileSet, filename string, src any, mode Mode) (*ast.File, error) {
	if src == nil {
		b, err := os.ReadFile(filename)
		if err != nil {
			return nil, err
		}
		src = b
	}
	return parser.ParseFile(fset, filename, src, mode)
}

func ParseDir(fset *token.FileSet, path string, filter func(fs.FileInfo) bool, mode Mode) (map[string]*ast.Package, error) {
	list, err := os.ReadDir(path)
	if err != nil {
		return nil, err
	}
	pkgs := map[string]*ast.Package{}
	var first error
	for _, d := range list {
		if d.IsDir() || !strings.HasSuffix(d.Name(), ".go") {
			continue
		}
		if filter != nil {
			info, err := d.Info()
			if err != nil {
				return nil, err
			}
			if !filter(info) {
				continue
			}
		}
		filename := strings.TrimSuffix(path, "/") + "/" + d.Name()
		src, err := ParseFile(fset, filename, nil, mode)
		if err != nil {
			if first == nil {
				first = err
			}
			continue
		}
		name := src.Name.Name
		pkg, found := pkgs[name]
		if !found {
			pkg = &ast.Package{Name: name, Files: map[string]*ast.File{}}
			pkgs[name] = pkg
		}
		pkg.Files[filename] = src
	}
	return pkgs, first
}

func ParseExprFrom(fset *token.FileSet, filename string, src any, mode Mode) (ast.Expr, error) {
	if src == nil {
		b, err := os.ReadFile(filename)
		if err != nil {
			return nil, err
		}
		src = b
	}
	return parser.ParseExprFrom(fset, filename, src, mode)
}

func ParseExpr(x string) (ast.Expr, error) { return parser.ParseExpr(x) }
