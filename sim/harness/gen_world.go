package harness

import (
	"fmt"
	"path"
	"sort"
	"strings"

	"verif.local/sim/world"
)

const (
	SimRoot = "/sim/w"
	ProjDir = SimRoot + "/proj"
	PatDir  = SimRoot + "/patches"
)

// RebuildArgs derives the command line from flags, patches and targets.
func (c *Case) RebuildArgs() {
	var args []string
	args = append(args, c.Flags.Args()...)
	var list []string
	listPath := ""
	c.Spec.Stdin = nil
	noPatches := c.Extra != nil && c.Extra["no_patches"] == "1"
	for _, p := range c.Patches {
		if noPatches {
			// the patches of the case are decoys: the list file names none of them,
			// and the first one waits on standard input, which nobody asked for
			listPath = PatDir + "/list.txt"
			if c.Spec.Stdin == nil {
				c.Spec.Stdin = append(world.Bytes(nil), p.Data...)
			}
			continue
		}
		switch p.Via {
		case "p":
			args = append(args, "-p", relOrAbs(c, p.Path))
		case "P":
			list = append(list, p.Path)
			listPath = PatDir + "/list.txt"
		case "stdin":
			c.Spec.Stdin = append(world.Bytes(nil), p.Data...)
		}
	}
	// drop a stale list node
	nodes := c.Spec.Nodes[:0:0]
	for _, n := range c.Spec.Nodes {
		if n.Path != PatDir+"/list.txt" {
			nodes = append(nodes, n)
		}
	}
	c.Spec.Nodes = nodes
	if listPath != "" {
		text := strings.Join(list, "\n") + "\n"
		style := c.Extra["list_style"]
		if noPatches {
			text = map[string]string{"": "", "blank-lines": "\n\n\n"}[style]
			style = ""
		}
		switch style {
		case "blank-lines":
			text = "\n" + strings.Join(list, "\n\n") + "\n\n"
		case "ws-lines":
			text = " \t \n" + strings.Join(list, "\n   \n") + "\n\t\n"
		case "crlf":
			text = strings.Join(list, "\r\n") + "\r\n"
		case "no-final-nl":
			text = strings.Join(list, "\n")
		case "comment":
			text = "# patches\n" + text
		case "trailing-space":
			text = strings.Join(list, " \n") + " \n"
		case "empty":
			text = ""
		case "nul":
			text = strings.Join(list, "\x00\n") + "\n"
		}
		c.Spec.Nodes = append(c.Spec.Nodes, world.NodeSpec{Path: listPath, Kind: "file", Data: []byte(text)})
		args = append(args, "-P", listPath)
	}
	args = append(args, c.Targets...)
	c.Spec.Args = args
}

func relOrAbs(c *Case, p string) string {
	if c.Extra != nil && c.Extra["relpatch"] == "1" && strings.HasPrefix(p, SimRoot+"/") {
		return "../" + strings.TrimPrefix(p, SimRoot+"/")
	}
	return p
}

// SetNode adds or replaces a node of the initial tree.
func (c *Case) SetNode(n world.NodeSpec) {
	for i := range c.Spec.Nodes {
		if c.Spec.Nodes[i].Path == n.Path {
			c.Spec.Nodes[i] = n
			return
		}
	}
	c.Spec.Nodes = append(c.Spec.Nodes, n)
}

// NodeData returns the initial content of a file node.
func (c *Case) NodeData(p string) []byte {
	for i := range c.Spec.Nodes {
		if c.Spec.Nodes[i].Path == p {
			if c.Spec.Nodes[i].Kind == "hardlink" {
				return c.NodeData(c.Spec.Nodes[i].Target)
			}
			return c.Spec.Nodes[i].Data
		}
	}
	return nil
}

// AddHardlinkTarget gives one of the matching target files a second name that
// is itself a requested Go file. Two names of one inode are two files: each is
// processed once, and what is done to one must not be done to the other again.
func AddHardlinkTarget(c *Case, r *world.PRNG) bool {
	var cands []FileMeta
	for _, f := range c.Files {
		if f.Role == "match" && !strings.Contains(f.Path, "/hl_") {
			cands = append(cands, f)
		}
	}
	if len(cands) == 0 {
		return false
	}
	f := cands[r.Intn(len(cands))]
	dir := r.Pick([]string{path.Dir(f.Path), ProjDir, ProjDir + "/zz"})
	p := dir + "/hl_" + path.Base(f.Path)
	for _, n := range c.Spec.Nodes {
		if n.Path == p {
			return false
		}
	}
	c.Spec.Nodes = append(c.Spec.Nodes, world.NodeSpec{Path: p, Kind: "hardlink", Target: f.Path})
	c.Files = append(c.Files, FileMeta{Path: p, Role: f.Role, Markers: f.Markers, Note: f.Note})
	c.Extra["hardlink_target"] = "1"
	return true
}

// DropFile removes a target file (node, metadata and any argument naming it).
func (c *Case) DropFile(p string) {
	nodes := c.Spec.Nodes[:0:0]
	data := c.NodeData(p)
	for _, n := range c.Spec.Nodes {
		if n.Kind == "hardlink" && n.Target == p {
			// the other name of the dropped file lives on as a file of its own
			n = world.NodeSpec{Path: n.Path, Kind: "file", Data: append(world.Bytes(nil), data...)}
		}
		if n.Path != p {
			nodes = append(nodes, n)
		}
	}
	c.Spec.Nodes = nodes
	files := c.Files[:0:0]
	for _, f := range c.Files {
		if f.Path != p {
			files = append(files, f)
		}
	}
	c.Files = files
	tg := c.Targets[:0:0]
	for _, t := range c.Targets {
		if absTarget(t) != p {
			tg = append(tg, t)
		}
	}
	c.Targets = tg
}

func absTarget(t string) string {
	t = strings.TrimSuffix(t, "...")
	if strings.HasPrefix(t, "/") {
		return path.Clean(t)
	}
	return path.Clean(ProjDir + "/" + t)
}

// NewCLICase starts a CLI case with the standard layout.
func NewCLICase(prop, sub string, idx int, seed uint64) *Case {
	c := &Case{Prop: prop, Sub: sub, Idx: idx, Seed: seed, Extra: map[string]string{}}
	c.Spec.Cwd = ProjDir
	c.Spec.Nodes = []world.NodeSpec{{Path: ProjDir, Kind: "dir"}, {Path: PatDir, Kind: "dir"}}
	c.Spec.Knobs.Seed = world.Mix(seed, uint64(idx), 1234)
	return c
}

// AddPatch adds a patch file.
func (c *Case) AddPatch(name, via string, data []byte, markers, triggers []string) {
	p := PatchMeta{Via: via, Data: data, Markers: markers, Triggers: triggers}
	if via == "stdin" {
		p.Path = "stdin"
	} else {
		p.Path = PatDir + "/" + name
		c.SetNode(world.NodeSpec{Path: p.Path, Kind: "file", Data: data})
	}
	c.Patches = append(c.Patches, p)
}

// AddFile adds a target file below the project directory.
func (c *Case) AddFile(rel string, data []byte, role string, markers []string, note string) string {
	p := ProjDir + "/" + rel
	c.SetNode(world.NodeSpec{Path: p, Kind: "file", Data: data})
	c.Files = append(c.Files, FileMeta{Path: p, Role: role, Markers: markers, Note: note})
	return p
}

// SortedFiles returns file metadata in absolute-path order (the processing
// order the property fixes).
func (c *Case) SortedFiles() []FileMeta {
	fs := append([]FileMeta(nil), c.Files...)
	sort.Slice(fs, func(i, j int) bool { return fs[i].Path < fs[j].Path })
	return fs
}

// InitialState returns the snapshot of the world before anything ran.
func (c *Case) InitialState() []world.FileState {
	return world.New(c.Spec).Snapshot()
}

// PatchPlan is a generated set of patch files with their changes.
type PatchPlan struct {
	Files [][]Change
}

// GenPatchPlan draws 1..maxFiles patch files with 1..2 changes each, all with
// distinct suffixes.
func GenPatchPlan(r *world.PRNG, maxFiles int, tmpls []*Template) PatchPlan {
	var pp PatchPlan
	k := 1
	nf := r.Range(1, maxFiles)
	for i := 0; i < nf; i++ {
		nc := 1
		if r.Chance(1, 3) {
			nc = 2
		}
		var cs []Change
		for j := 0; j < nc; j++ {
			t := tmpls[r.Intn(len(tmpls))]
			marker := ""
			if r.Chance(2, 3) {
				marker = fmt.Sprintf("VFMARK-%d-%s", k, t.Name)
			}
			cs = append(cs, Change{T: t, K: k, Marker: marker})
			k++
		}
		pp.Files = append(pp.Files, cs)
	}
	return pp
}

// All returns every change of the plan.
func (pp PatchPlan) All() []Change {
	var out []Change
	for _, f := range pp.Files {
		out = append(out, f...)
	}
	return out
}

// Install adds the plan's patch files to the case.
func (pp PatchPlan) Install(c *Case, r *world.PRNG) {
	via := "p"
	if len(pp.Files) == 1 && r.Chance(1, 3) {
		via = "stdin"
	} else if r.Chance(1, 4) {
		via = "P"
	}
	if r.Chance(1, 3) {
		c.Extra["relpatch"] = "1"
	}
	for i, cs := range pp.Files {
		var markers, triggers []string
		for _, ch := range cs {
			if ch.Marker != "" {
				markers = append(markers, ch.Marker)
			}
			triggers = append(triggers, ch.T.Trigger(ch.K))
		}
		c.AddPatch(fmt.Sprintf("p%d.patch", i), via, PatchText(cs), markers, triggers)
	}
}

// GenValidGoFile generates until the result parses (generator sanity).
func GenValidGoFile(r *world.PRNG, o GoFileOpts) []byte {
	for try := 0; try < 20; try++ {
		b := GenGoFile(r, o)
		if ParsesAsGo(b) == nil {
			return b
		}
	}
	// fall back to a minimal file
	o2 := o
	var sb strings.Builder
	sb.WriteString(o2.Header + o2.PkgDoc + "package sample\n\n")
	for _, im := range o2.Imports {
		sb.WriteString("import " + quoteImp(im) + "\n")
	}
	sb.WriteString("func fallback() {\n")
	for _, s := range o2.Stmts {
		sb.WriteString("\t" + s + "\n")
	}
	sb.WriteString("}\n")
	for _, d := range o2.Decls {
		sb.WriteString(d + "\n")
	}
	return []byte(sb.String())
}

// MatchingFile generates a file that contains instances of the given changes.
func MatchingFile(r *world.PRNG, cs []Change, style, header string) []byte {
	o := GoFileOpts{Style: style, Header: header, Funcs: r.Range(1, 3)}
	for _, ch := range cs {
		if ch.T.Decl != nil {
			o.Decls = append(o.Decls, ch.T.Decl(r, ch.K))
		} else {
			n := r.Range(1, 2)
			for i := 0; i < n; i++ {
				o.Stmts = append(o.Stmts, ch.T.Stmt(r, ch.K))
			}
		}
		if ch.T.Imports != nil {
			o.Imports = append(o.Imports, ch.T.Imports(ch.K)...)
		}
	}
	// an instance of one change spread over several lines INSIDE the elided
	// arguments of another change's instance
	var outer, innerCh *Change
	for i := range cs {
		switch cs[i].T.Name {
		case "dots-multiline", "dots-args":
			outer = &cs[i]
		case "call-rename", "swap-args":
			innerCh = &cs[i]
		}
	}
	if outer != nil && innerCh != nil && r.Chance(1, 2) {
		in := fmt.Sprintf("vfOld%d(%s)", innerCh.K, GenExpr(r, 1))
		if innerCh.T.Name == "swap-args" {
			in = fmt.Sprintf("vfOld%d(%s,\n%s)", innerCh.K, GenExpr(r, 1), GenExpr(r, 1))
		}
		o.Stmts = append(o.Stmts, fmt.Sprintf("vfOld%d(%s,\n%s,\n%s)", outer.K, GenExpr(r, 0), in, GenExpr(r, 0)))
	}
	if r.Chance(1, 2) {
		o.Imports = append(o.Imports, "fmt")
		o.Stmts = append(o.Stmts, "fmt.Println(\"x\")")
	}
	if r.Chance(1, 4) {
		// standard-library and third-party imports mixed in one block: import
		// processing regroups and sorts them
		o.Imports = append(o.Imports, "os", "example.com/zeta", "strings", "example.com/alpha")
	}
	return GenValidGoFile(r, o)
}

// NonMatchingFile generates a file that contains no trigger at all.
func NonMatchingFile(r *world.PRNG, style, header string) []byte {
	o := GoFileOpts{Style: style, Header: header, Funcs: r.Range(1, 3)}
	if r.Chance(1, 2) {
		o.Imports = []string{"fmt", "os"}
		if r.Chance(1, 2) {
			// deliberately unsorted / ungrouped imports: import processing would reorder them
			o.Imports = []string{"os", "example.com/zeta", "fmt", "example.com/alpha"}
		}
	}
	return GenValidGoFile(r, o)
}

// UnparseableFile returns Go-looking text that does not parse.
func UnparseableFile(r *world.PRNG) []byte {
	base := string(NonMatchingFile(r, "canonical", ""))
	switch r.Intn(8) {
	case 4:
		return []byte{} // an empty file
	case 5:
		return []byte("// only a comment, no package clause\n")
	case 6:
		return []byte("package 123\n\nfunc f() {}\n")
	case 7:
		return []byte("package\n")
	case 0:
		return []byte(base + "\nfunc broken( {\n")
	case 1:
		return []byte(strings.Replace(base, "package ", "pakage ", 1))
	case 2:
		return []byte(base + "\n}}}\n")
	default:
		return []byte("package sample\n\nfunc f() { if }\n")
	}
}

// ContainsAny reports whether b contains any of the strings.
func ContainsAny(b []byte, ss []string) bool {
	s := string(b)
	for _, x := range ss {
		if strings.Contains(s, x) {
			return true
		}
	}
	return false
}

// AddDecoys sprinkles files that gopatch has no business touching into the
// project tree: editor backups, leftovers that look like temporary files of
// an interrupted run, lock files, non-Go sources. Any mutation of them shows
// up in the filesystem digest.
func AddDecoys(c *Case, r *world.PRNG) {
	names := []string{".a.go.123456.tmp", "notes.txt", "main.go~", "main.go.orig", ".#lock.go.swp", "x.go.bak", "go.mod", ".mt0.go.99.tmp", "Makefile", "gen.go.tmpl"}
	n := r.Intn(3)
	for i := 0; i < n; i++ {
		nm := names[r.Intn(len(names))]
		dir := r.Pick([]string{"", "", "pkg/", "internal/x/"})
		c.SetNode(world.NodeSpec{Path: ProjDir + "/" + dir + nm, Kind: "file", Data: []byte("decoy " + nm + "\nvfOld1(1)\n")})
	}
	// a symlink with a Go file's name pointing at one of the targets: it must be
	// ignored, and above all the target must not be processed a second time through it
	if len(c.Files) > 0 && r.Chance(1, 4) {
		t := c.Files[r.Intn(len(c.Files))]
		c.SetNode(world.NodeSpec{Path: ProjDir + "/" + r.Pick([]string{"aa_link.go", "zz_link.go", "pkg/link_other.go"}), Kind: "symlink", Target: t.Path})
		c.Extra["symlink_decoy"] = "1"
	}
	// stray non-directories whose names look like excluded directories or hidden files
	if r.Chance(1, 5) {
		switch r.Intn(3) {
		case 0:
			c.SetNode(world.NodeSpec{Path: ProjDir + "/.#worker.go", Kind: "symlink", Target: "user@host.4242:1700000000"})
		case 1:
			c.SetNode(world.NodeSpec{Path: ProjDir + "/" + r.Pick([]string{"", "pkg/"}) + "vendor", Kind: "symlink", Target: "../third_party"})
		default:
			c.SetNode(world.NodeSpec{Path: ProjDir + "/" + r.Pick([]string{"", "pkg/"}) + "_scratch", Kind: "file", Data: []byte("scratch\n")})
		}
	}
	// a second, non-Go name for one of the targets (hard link): rewriting the
	// target must not write through to it
	if len(c.Files) > 0 && r.Chance(1, 5) {
		t := c.Files[r.Intn(len(c.Files))]
		c.SetNode(world.NodeSpec{Path: ProjDir + "/" + r.Pick([]string{"keep.orig", "pkg/saved.bak"}), Kind: "hardlink", Target: t.Path})
		c.Extra["hardlink_decoy"] = "1"
	}
}

// OddDir returns a directory prefix with characters that need care in
// messages and format strings (always legal in file names).
func OddDir(r *world.PRNG) string {
	return r.Pick([]string{"my%20project/", "50%/", "with space/", "ünï/", "a#b/", "x+y=z/", "%s%d/", "pkg/", ""})
}
