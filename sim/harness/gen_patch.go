package harness

import (
	"fmt"
	"strings"

	"verif.local/sim/world"
)

// Template is a family of patches with a matching instance generator. Every
// match of a template instance requires its trigger identifier to occur in the
// file, so a file whose bytes lack the trigger cannot match by construction.
type Template struct {
	Name string
	// Patch returns the change text (without description) for suffix k.
	Patch func(k int) string
	// Trigger returns the identifier that every match requires.
	Trigger func(k int) string
	// Stmt returns a statement containing an instance.
	Stmt func(r *world.PRNG, k int) string
	// Decl, if set, returns a top-level declaration containing an instance
	// (used instead of Stmt).
	Decl func(r *world.PRNG, k int) string
	// Imports the instance needs in the file.
	Imports func(k int) []string
	// NonIdempotent: applying the patch to its own output changes it again.
	NonIdempotent bool
}

var Templates = []*Template{
	{
		Name:    "call-rename",
		Patch:   func(k int) string { return fmt.Sprintf("@@\nvar x expression\n@@\n-vfOld%d(x)\n+vfNew%d(x)\n", k, k) },
		Trigger: func(k int) string { return fmt.Sprintf("vfOld%d", k) },
		Stmt: func(r *world.PRNG, k int) string {
			if r.Chance(1, 3) {
				return fmt.Sprintf("_ = compute(vfOld%d(%s))", k, GenExpr(r, 1))
			}
			return fmt.Sprintf("vfOld%d(%s)", k, GenExpr(r, 2))
		},
	},
	{
		Name:    "ident-rename",
		Patch:   func(k int) string { return fmt.Sprintf("@@\n@@\n-vfOld%d\n+vfNew%d\n", k, k) },
		Trigger: func(k int) string { return fmt.Sprintf("vfOld%d", k) },
		Stmt: func(r *world.PRNG, k int) string {
			return fmt.Sprintf("emit(vfOld%d, %s)", k, GenExpr(r, 1))
		},
	},
	{
		Name: "swap-args",
		Patch: func(k int) string {
			return fmt.Sprintf("@@\nvar a, b expression\n@@\n-vfOld%d(a, b)\n+vfNew%d(b, a)\n", k, k)
		},
		Trigger: func(k int) string { return fmt.Sprintf("vfOld%d", k) },
		Stmt: func(r *world.PRNG, k int) string {
			return fmt.Sprintf("vfOld%d(%s, %s)", k, GenExpr(r, 1), GenExpr(r, 1))
		},
	},
	{
		Name:    "dots-args",
		Patch:   func(k int) string { return fmt.Sprintf("@@\n@@\n-vfOld%d(...)\n+vfNew%d(...)\n", k, k) },
		Trigger: func(k int) string { return fmt.Sprintf("vfOld%d", k) },
		Stmt: func(r *world.PRNG, k int) string {
			n := r.Intn(4)
			var args []string
			for i := 0; i < n; i++ {
				args = append(args, GenExpr(r, 1))
			}
			return fmt.Sprintf("vfOld%d(%s)", k, strings.Join(args, ", "))
		},
	},
	{
		Name:    "method-rename",
		Patch:   func(k int) string { return fmt.Sprintf("@@\nvar x identifier\n@@\n-x.VfOld%d()\n+x.VfNew%d()\n", k, k) },
		Trigger: func(k int) string { return fmt.Sprintf("VfOld%d", k) },
		Stmt: func(r *world.PRNG, k int) string {
			return fmt.Sprintf("%s.VfOld%d()", r.Pick(neutralIdents), k)
		},
	},
	{
		Name:          "increment",
		Patch:         func(k int) string { return fmt.Sprintf("@@\n@@\n-vfCnt%d\n+vfCnt%d + 1\n", k, k) },
		Trigger:       func(k int) string { return fmt.Sprintf("vfCnt%d", k) },
		NonIdempotent: true,
		Stmt: func(r *world.PRNG, k int) string {
			return fmt.Sprintf("total = vfCnt%d * %d", k, r.Range(2, 9))
		},
	},
	{
		Name: "import-rewrite",
		Patch: func(k int) string {
			return fmt.Sprintf("@@\n@@\n-import \"vf/old%d\"\n+import \"vf/new%d\"\n\n-old%d.Do()\n+new%d.Do()\n", k, k, k, k)
		},
		Trigger: func(k int) string { return fmt.Sprintf("vf/old%d", k) },
		Stmt: func(r *world.PRNG, k int) string {
			if r.Chance(1, 3) {
				// a closure in which a local variable shadows the package name
				return fmt.Sprintf("old%d.Do()\nfunc(old%d Config) {\n_ = old%d.Name\n}(cfg)", k, k, k)
			}
			return fmt.Sprintf("old%d.Do()", k)
		},
		Imports: func(k int) []string { return []string{fmt.Sprintf("vf/old%d", k)} },
	},
	{
		Name: "stmt-expand",
		Patch: func(k int) string {
			return fmt.Sprintf("@@\nvar e expression\n@@\n-vfOld%d(e)\n+if err := vfNew%d(e); err != nil {\n+\tpanic(err)\n+}\n", k, k)
		},
		Trigger: func(k int) string { return fmt.Sprintf("vfOld%d", k) },
		Stmt:    func(r *world.PRNG, k int) string { return fmt.Sprintf("vfOld%d(%s)", k, GenExpr(r, 1)) },
	},
	{
		// the patched file is shorter than the original
		Name: "shrink",
		Patch: func(k int) string {
			return fmt.Sprintf("@@\nvar x expression\n@@\n-vfOld%dWithAVeryLongDescriptiveName(x, nil, nil, nil)\n+vf%d(x)\n", k, k)
		},
		Trigger: func(k int) string { return fmt.Sprintf("vfOld%dWithAVeryLongDescriptiveName", k) },
		Stmt: func(r *world.PRNG, k int) string {
			return fmt.Sprintf("vfOld%dWithAVeryLongDescriptiveName(%s, nil, nil, nil)", k, GenExpr(r, 1))
		},
	},
	{
		// meant to be combined with others: its instance spans several lines and
		// embeds a further call, so another change can match inside the elided part
		Name:    "dots-multiline",
		Patch:   func(k int) string { return fmt.Sprintf("@@\n@@\n-vfOld%d(...)\n+vfNew%d(...)\n", k, k) },
		Trigger: func(k int) string { return fmt.Sprintf("vfOld%d", k) },
		Stmt: func(r *world.PRNG, k int) string {
			inner := fmt.Sprintf("vfOld%d(%s,\n%s)", k, GenExpr(r, 1), GenExpr(r, 1))
			return fmt.Sprintf("vfOld%d(%s,\n%s,\n// a comment inside\n%s)", k, GenExpr(r, 1), inner, GenExpr(r, 0))
		},
	},
	{
		// the change carries a package clause: it applies to files of that package only
		Name: "package-guarded",
		Patch: func(k int) string {
			return fmt.Sprintf("@@\n@@\n package sample\n\n-vfOld%d()\n+vfNew%d()\n", k, k)
		},
		Trigger: func(k int) string { return fmt.Sprintf("vfOld%d", k) },
		Stmt:    func(r *world.PRNG, k int) string { return fmt.Sprintf("vfOld%d()", k) },
	},
	{
		// the replacement repeats the statement: an insertion whose lines equal the
		// lines just before it
		Name: "duplicate-stmt",
		Patch: func(k int) string {
			return fmt.Sprintf("@@\nvar x expression\n@@\n-vfOld%d(x)\n+vfNew%d(x)\n+vfNew%d(x)\n", k, k, k)
		},
		Trigger: func(k int) string { return fmt.Sprintf("vfOld%d", k) },
		Stmt:    func(r *world.PRNG, k int) string { return fmt.Sprintf("vfNew%d(%s)\nvfOld%d(%s)", k, "1", k, "1") },
	},
	{
		Name: "funcdecl-rename",
		Patch: func(k int) string {
			return fmt.Sprintf("@@\nvar T identifier\n@@\n-func vfOld%d(x T) {\n+func vfNew%d(x T) {\n   ...\n }\n", k, k)
		},
		Trigger: func(k int) string { return fmt.Sprintf("vfOld%d", k) },
		Decl: func(r *world.PRNG, k int) string {
			return fmt.Sprintf("func vfOld%d(x %s) {\n\t%s\n}", k, r.Pick([]string{"int", "string", "Config"}), GenStmt(r, 0, nil))
		},
	},
	{
		// one of several identical statements goes, the one in front of an anchor:
		// which of the identical siblings the tree differ pairs up is ambiguous,
		// and the blank lines around them differ
		Name:          "delete-before-anchor",
		NonIdempotent: true,
		Patch: func(k int) string {
			return fmt.Sprintf("@@\n@@\n-vfOld%d()\n vfKeep%d()\n", k, k)
		},
		Trigger: func(k int) string { return fmt.Sprintf("vfOld%d", k) },
		Stmt: func(r *world.PRNG, k int) string {
			var sb strings.Builder
			for n := r.Range(1, 4); n > 0; n-- {
				sb.WriteString(fmt.Sprintf("vfOld%d()\n", k))
				if r.Chance(1, 2) {
					sb.WriteString("\n")
				}
				if r.Chance(1, 6) {
					sb.WriteString("// about the next call\n")
				}
			}
			sb.WriteString(fmt.Sprintf("vfKeep%d()", k))
			return sb.String()
		},
	},
	{
		// the import is named by a metavariable, which also qualifies the call
		Name: "named-import-metavar",
		Patch: func(k int) string {
			return fmt.Sprintf("@@\nvar foo identifier\n@@\n-import foo \"vf/old%d\"\n+import foo \"vf/new%d\"\n\n-foo.Old()\n+foo.New()\n", k, k)
		},
		Trigger: func(k int) string { return fmt.Sprintf("vf/old%d", k) },
		Stmt:    func(r *world.PRNG, k int) string { return fmt.Sprintf("pk%d.Old()", k) },
		Imports: func(k int) []string { return []string{fmt.Sprintf("pk%d \"vf/old%d\"", k, k)} },
	},
	{
		// no metavariable: "x" is the identifier x and nothing else
		Name:    "literal-arg",
		Patch:   func(k int) string { return fmt.Sprintf("@@\n@@\n-vfOld%d(x, err)\n+vfNew%d(x, err)\n", k, k) },
		Trigger: func(k int) string { return fmt.Sprintf("vfOld%d", k) },
		Stmt:    func(r *world.PRNG, k int) string { return fmt.Sprintf("vfOld%d(x, err)", k) },
	},
	{
		// one metavariable, used twice: both uses must be the same expression
		Name: "same-arg-twice",
		Patch: func(k int) string {
			return fmt.Sprintf("@@\nvar x expression\n@@\n-vfOld%d(x, x)\n+vfNew%d(x)\n", k, k)
		},
		Trigger: func(k int) string { return fmt.Sprintf("vfOld%d", k) },
		Stmt: func(r *world.PRNG, k int) string {
			e := GenExpr(r, 1)
			return fmt.Sprintf("vfOld%d(%s, %s)", k, e, e)
		},
	},
	{
		// two imports go, one comes; the imports that go carry trailing comments
		Name: "drop-two-imports",
		Patch: func(k int) string {
			return fmt.Sprintf("@@\nvar x expression\n@@\n-import \"vf/b%d\"\n-import \"vf/c%d\"\n+import \"vf/e%d\"\n\n-b%d.Foo(c%d.Bar(x))\n+e%d.Foo(x)\n", k, k, k, k, k, k)
		},
		Trigger: func(k int) string { return fmt.Sprintf("vf/b%d", k) },
		Stmt: func(r *world.PRNG, k int) string {
			return fmt.Sprintf("b%d.Foo(c%d.Bar(%s))", k, k, GenExpr(r, 1))
		},
		Imports: func(k int) []string {
			return []string{fmt.Sprintf("\"vf/b%d\" // bee", k), fmt.Sprintf("\"vf/c%d\" // cee", k)}
		},
	},
	{
		// the change brings its own import
		Name: "add-import",
		Patch: func(k int) string {
			return fmt.Sprintf("@@\n@@\n+import \"vf/lib%d\"\n\n-vfOld%d()\n+lib%d.New()\n", k, k, k)
		},
		Trigger: func(k int) string { return fmt.Sprintf("vfOld%d", k) },
		Stmt:    func(r *world.PRNG, k int) string { return fmt.Sprintf("vfOld%d()", k) },
	},
	{
		Name: "type-rename",
		Patch: func(k int) string {
			return fmt.Sprintf("@@\nvar T identifier\n@@\n-type VfOld%d T\n+type VfNew%d T\n", k, k)
		},
		Trigger: func(k int) string { return fmt.Sprintf("VfOld%d", k) },
		Decl: func(r *world.PRNG, k int) string {
			return fmt.Sprintf("type VfOld%d %s", k, r.Pick([]string{"int", "string", "Config"}))
		},
	},
	{
		// fixed arguments on both sides of the elision
		Name: "dots-sandwich",
		Patch: func(k int) string {
			return fmt.Sprintf("@@\n@@\n-vfOld%d(ctx, ..., id)\n+vfNew%d(ctx, ..., id)\n", k, k)
		},
		Trigger: func(k int) string { return fmt.Sprintf("vfOld%d", k) },
		Stmt: func(r *world.PRNG, k int) string {
			n := r.Intn(3)
			args := []string{"ctx"}
			for i := 0; i < n; i++ {
				args = append(args, GenExpr(r, 1))
			}
			return fmt.Sprintf("vfOld%d(%s, id)", k, strings.Join(args, ", "))
		},
	},
}

// TemplateByName looks a template up.
func TemplateByName(n string) *Template {
	for _, t := range Templates {
		if t.Name == n {
			return t
		}
	}
	return nil
}

// Change is one generated change of a patch file.
type Change struct {
	T      *Template
	K      int
	Marker string // description marker ("" = no description)
}

func (c Change) Text() string {
	s := ""
	if c.Marker != "" {
		s = "# " + c.Marker + "\n"
	}
	return s + c.T.Patch(c.K)
}

// PatchText renders a patch file from changes.
func PatchText(cs []Change) []byte {
	var parts []string
	for _, c := range cs {
		parts = append(parts, c.Text())
	}
	return []byte(strings.Join(parts, "\n"))
}

// Misfit patches compile but print unparseable Go when the metavariable is
// bound to a composite literal.
type Misfit struct {
	Name  string
	Patch func(k int) string
	Stmt  func(k int) string
}

var Misfits = []*Misfit{
	{
		Name: "complit-in-if",
		Patch: func(k int) string {
			return fmt.Sprintf("@@\nvar x expression\n@@\n-vfChk%d(x)\n+if x == nil {\n+\treturn\n+}\n", k)
		},
		Stmt: func(k int) string { return fmt.Sprintf("vfChk%d(Node{})", k) },
	},
	{
		Name: "complit-in-range",
		Patch: func(k int) string {
			return fmt.Sprintf("@@\nvar x expression\n@@\n-vfChk%d(x)\n+for range x {\n+}\n", k)
		},
		Stmt: func(k int) string { return fmt.Sprintf("vfChk%d(Node{Val: 1})", k) },
	},
	{
		Name:  "complit-in-switch",
		Patch: func(k int) string { return fmt.Sprintf("@@\nvar x expression\n@@\n-vfChk%d(x)\n+switch x {\n+}\n", k) },
		Stmt:  func(k int) string { return fmt.Sprintf("vfChk%d(Node{Val: 1})", k) },
	},
}

// NearMisses returns statements and top-level declarations that mention the
// trigger of change (t, k) and still are no instance of its "-" side: the code
// differs from the pattern in a token the pattern spells out (a variadic
// "...", an "=", the number of arguments or parameters, a receiver), or the
// trigger occurs only inside a string, a comment or a longer identifier.
func NearMisses(t *Template, k int) (stmts, decls []string) {
	trig := t.Trigger(k)
	// in every case: the trigger in a string literal, a comment and a longer identifier
	stmts = []string{
		fmt.Sprintf("_ = \"%s(1)\"", trig),
		fmt.Sprintf("// %s(1) used to be called here", trig),
		fmt.Sprintf("%sx(1)", trig),
		fmt.Sprintf("_ = `\n%s(1)\n`", trig),
	}
	switch t.Name {
	case "call-rename", "stmt-expand", "duplicate-stmt":
		stmts = append(stmts,
			fmt.Sprintf("%s(xs...)", trig),
			fmt.Sprintf("%s()", trig),
			fmt.Sprintf("%s(1, 2)", trig),
			fmt.Sprintf("%s(1, xs...)", trig),
			fmt.Sprintf("%s[int](1)", trig),
			fmt.Sprintf("_ = %s", trig),
		)
	case "swap-args":
		stmts = append(stmts,
			fmt.Sprintf("%s(1)", trig),
			fmt.Sprintf("%s(1, 2, 3)", trig),
			fmt.Sprintf("%s(1, xs...)", trig),
			fmt.Sprintf("%s()", trig),
		)
	case "method-rename":
		stmts = append(stmts,
			fmt.Sprintf("a.b.%s()", trig),
			fmt.Sprintf("a.%s(1)", trig),
			fmt.Sprintf("_ = a.%s", trig),
			fmt.Sprintf("f().%s()", trig),
			fmt.Sprintf("%s()", trig),
		)
	case "shrink":
		stmts = append(stmts,
			fmt.Sprintf("%s(1, nil, nil)", trig),
			fmt.Sprintf("%s(1, nil, nil, nil, nil)", trig),
			fmt.Sprintf("%s(1, nil, nil, 0)", trig),
			fmt.Sprintf("%s(1, nil, nil, xs...)", trig),
		)
	case "package-guarded", "add-import":
		stmts = append(stmts, fmt.Sprintf("%s(1)", trig), fmt.Sprintf("%s(xs...)", trig))
	case "funcdecl-rename":
		decls = append(decls,
			fmt.Sprintf("func %s(x int, y int) {\n\tcompute(x)\n}", trig),
			fmt.Sprintf("func (n *Node) %s(x int) {\n\tcompute(x)\n}", trig),
			fmt.Sprintf("func %s() {\n}", trig),
			fmt.Sprintf("func %s(x ...int) {\n}", trig),
			fmt.Sprintf("func %s(x int) error {\n\treturn nil\n}", trig),
			fmt.Sprintf("var %s = func(x int) {\n}", trig),
		)
	case "type-rename":
		decls = append(decls,
			fmt.Sprintf("type %s = int", trig),
			fmt.Sprintf("type %s[T any] int", trig),
			fmt.Sprintf("var %s int", trig),
		)
	case "same-arg-twice":
		stmts = append(stmts,
			fmt.Sprintf("%s(x+1, y+1)", trig),
			fmt.Sprintf("%s(x, y)", trig),
			fmt.Sprintf("%s(g(x), g(1))", trig),
			fmt.Sprintf("%s(a, b)", trig),
			fmt.Sprintf("%s(x)", trig),
			fmt.Sprintf("%s(x.f, x.g)", trig),
		)
	case "literal-arg":
		stmts = append(stmts,
			fmt.Sprintf("%s(1, err)", trig),
			fmt.Sprintf("%s(x, nil)", trig),
			fmt.Sprintf("%s(y, e)", trig),
			fmt.Sprintf("%s(g(x), err)", trig),
			fmt.Sprintf("%s(x)", trig),
		)
	case "named-import-metavar":
		// (the file also imports the path, unnamed: see NearMissFile)
		stmts = []string{"bar.Old()", fmt.Sprintf("old%d.Other()", k), "cfg.Old()", "_ = \"" + trig + "\""}
	case "delete-before-anchor":
		stmts = append(stmts,
			fmt.Sprintf("%s()\nother()\nvfKeep%d()", trig, k),
			fmt.Sprintf("{\n%s()\n}\nvfKeep%d()", trig, k),
			fmt.Sprintf("%s(1)\nvfKeep%d()", trig, k),
		)
	case "dots-sandwich":
		stmts = append(stmts,
			fmt.Sprintf("%s(ctx)", trig),
			fmt.Sprintf("%s()", trig),
			fmt.Sprintf("%s(ctx, 1)", trig),
			fmt.Sprintf("%s(1, id)", trig),
			fmt.Sprintf("%s(id, ctx)", trig),
			fmt.Sprintf("%s(id)", trig),
		)
	}
	return
}

// NearMissFile generates a file that mentions the triggers of the given
// changes without containing an instance of any of them.
func NearMissFile(r *world.PRNG, cs []Change, style, header string) []byte {
	o := GoFileOpts{Style: style, Header: header, Funcs: r.Range(1, 3)}
	for _, ch := range cs {
		st, de := NearMisses(ch.T, ch.K)
		for n := r.Range(1, 3); n > 0; n-- {
			if len(de) > 0 && r.Chance(1, 2) {
				o.Decls = append(o.Decls, de[r.Intn(len(de))])
			} else {
				o.Stmts = append(o.Stmts, st[r.Intn(len(st))])
			}
		}
		if ch.T.Name == "named-import-metavar" {
			o.Imports = append(o.Imports, ch.T.Trigger(ch.K))
		}
		if ch.T.Name == "package-guarded" {
			// the exact instance, in a file of another package
			o.Pkg = r.Pick([]string{"sample_test", "samples", "sampl", "main", "Sample"})
			o.Stmts = append(o.Stmts, ch.T.Stmt(r, ch.K))
		}
	}
	return GenValidGoFile(r, o)
}
