#!/bin/bash
# usage: tools_confirm.sh <worktree> <change-dir>
# Confirms a delivered seeded change in its scratch worktree: applies cleanly,
# builds, the existing suite passes, demo.sh passes without it and fails with it.
wt=$1; d=$2
export GOFLAGS=-mod=mod GOPROXY=off GOSUMDB=off GOTOOLCHAIN=local
cd $wt || exit 2
git checkout -q -- . ; git clean -fdq
[ -f $d/demo.sh ] || { echo "$d: no demo.sh"; exit 2; }
(cd $wt && timeout 600 bash $d/demo.sh $wt) >$d/observed_clean.txt 2>&1; rc_clean=$?
git checkout -q -- . ; git clean -fdq
git apply $d/patch.diff || { echo "$d: patch does not apply"; exit 2; }
go build ./... >/tmp/confirm_build.txt 2>&1 || { echo "$d: BUILD FAILS"; git checkout -q -- .; git clean -fdq; exit 2; }
go vet ./... >/dev/null 2>&1; vet=$?
ntest=$(go test -vet=off -count=1 ./... 2>&1 | grep -c "^FAIL")
(cd $wt && timeout 600 bash $d/demo.sh $wt) >$d/observed_patched.txt 2>&1; rc_patch=$?
git checkout -q -- . ; git clean -fdq
echo "$d: tests_failing_pkgs=$ntest vet_rc=$vet demo_clean_rc=$rc_clean demo_patched_rc=$rc_patch"
