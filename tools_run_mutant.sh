#!/bin/sh
# usage: tools_run_mutant.sh <patch.diff> [property ...]
# Applies a seeded change to /repo, runs the quick checks (evidence redirected
# to a scratch directory), and restores /repo. Prints one line per property.
set -u
patch="$1"; shift
# a change rebased onto the current HEAD of /repo takes precedence over the delivered one
[ -f "$(dirname "$patch")/patch_rebased.diff" ] && patch="$(dirname "$patch")/patch_rebased.diff"
props="${*:-C06 C07 C08 C12 C14 C15 C16 C18}"
cd /verif || exit 2
if ! git -C /repo diff --quiet; then echo "refusing: /repo has uncommitted changes" >&2; exit 2; fi
trap 'git -C /repo reset -q --hard HEAD ; git -C /repo clean -fdq' EXIT INT TERM
# seeded changes were written against an earlier HEAD of /repo; fall back to a 3-way apply
git -C /repo apply "$patch" 2>/dev/null || git -C /repo apply --3way "$patch" >/dev/null 2>&1 || { echo "patch does not apply" >&2; exit 2; }
(cd /repo && GOFLAGS=-mod=mod GOPROXY=off GOSUMDB=off GOTOOLCHAIN=local go build ./... ) || { echo "patched tree does not build" >&2; exit 2; }
export VERIF_EVIDENCE_DIR=/tmp/mut-evidence
mkdir -p "$VERIF_EVIDENCE_DIR"
for p in $props; do
  out=$(./check "$p" quick 2>&1); rc=$?
  nv=$(printf '%s\n' "$out" | grep -c '^VIOLATION')
  first=$(printf '%s\n' "$out" | grep -m1 -E '^verifsim: [a-z-]+: C[0-9]+/' | cut -c1-160)
  echo "$p exit=$rc violations=$nv $first"
done
