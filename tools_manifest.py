#!/usr/bin/env python3
"""Regenerates MANIFEST.json from the table below (kept in one place so that it is always valid)."""
import json, sys
claimed = {
 "C06": ("exploration", "4 C06", "Seeded deterministic simulation of gopatch's real main() and library API on a simulated filesystem: for files that cannot match by construction, the op log must contain no mutating operation reaching them, inode/mtime/mode/bytes must be unchanged, --print-only must echo them verbatim in path order, no diff header/description/stderr mention, exit 0, Apply returns the input. Sampling, not proof.",
         "Trusted: the simulated os/filepath shim (differentially tested against the kernel), go/parser; unmatched-by-construction relies on trigger identifiers absent from the file bytes.",
         "deterministic simulation (simulated os, op-log oracle), seeded worlds"),
}
na = {
 "C01": "pure matcher semantics: a relation between (patch text, file text) and rewritten nodes; no schedule, clock, fault or environment to simulate",
 "C02": "metavariable kind/consistency is decided inside one pure Match call; nothing for a simulator to control",
 "C03": "instantiation of the '+' side is a pure function of the bindings",
 "C04": "elision semantics are a pure list-matching function",
 "C05": "preservation of the untouched remainder is a relation between input and output syntax trees only",
 "C09": "composition law of a pure function; its one environmental clause (a failing step leaves the file untouched) is covered by C16",
 "C10": "finite guard table over (patch import form, file import form): enumeration of a pure predicate, no environment",
 "C11": "the import set after a rewrite is a pure function of patch and file",
 "C13": "layout invariance of a pure function of the patch text",
 "C17": "comment survival is a pure function of patch and file",
 "C19": "diagnostic line/column is a pure function of the patch text",
}
def main():
    claims = json.load(open("/verif/manifest_claims.json"))
    checks = []
    for pid, c in sorted(claims["claimed"].items()):
        checks.append({
            "property_id": pid,
            "quick_cmd": f"./check {pid} quick",
            "thorough_cmd": f"./check {pid} thorough",
            "evidence_file": f"/verif/evidence/{pid}.json",
            "replay_cmd_template": "./bin/verifsim replay {path}",
            "engine": "verifsim",
            "level_claimed": {"category": c["level"], "text": c["text"], "design_ref": c["design_ref"]},
            "level_note": c["note"],
            "technique": c["technique"],
        })
    nalist = [{"property_id": k, "reason": v} for k, v in sorted({**na, **claims.get("not_yet", {})}.items()) if k not in claims["claimed"]]
    m = {
        "version": 1,
        "setup_cmd": "./setup.sh",
        "hooks": {
            "guard": "none: build-time overlay (go build -overlay + -modfile); /repo is never edited by the machinery",
            "enable": "verifsim instruments a virtual copy of /repo's working tree (import redirection of os, path/filepath, io/ioutil, os/signal, time, math/rand, go/parser to the simulator; yield points; the same for one file of the golang.org/x/tools module, internal/imports/sortimports.go, which needs GODEBUG=goindex=0 for the build) and builds it with `go test -c -overlay build/<id>/overlay.json -modfile build/<id>/go.mod`",
            "baseline_off_cmd": "cd /repo && go test -mod=mod -vet=off -count=1 ./...",
            "source_commits": [],
            "add_only": True,
        },
        "engines": [{"name": "verifsim", "path": "/verif/cmd/verifsim", "serves_properties": sorted(claims["claimed"].keys()),
                     "kind_free_text": "deterministic whole-program simulator with fault injection: coordinator + worker processes running gopatch's real main() on a simulated os/filepath, seeded fault plans, op-log and history oracles, replay files"}],
        "checks": checks,
        "not_applicable": nalist,
        "notes": claims.get("notes", ""),
    }
    json.dump(m, open("/verif/MANIFEST.json", "w"), indent=1)
    print("MANIFEST.json written:", len(checks), "checks,", len(nalist), "not applicable")
main()
