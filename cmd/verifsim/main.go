// verifsim is the coordinator of the deterministic simulation: it builds the
// instrumented simulator binary from /repo's current working tree, runs worker
// processes (each a "simulated machine" executing gopatch's real main() on the
// simulated os), supervises crashes and hangs, matches violations against the
// committed known-findings file, confirms new ones by replay in a fresh
// process, and writes the evidence file.
package main

import (
	"bufio"
	"encoding/json"
	"flag"
	"fmt"
	"os"
	"os/exec"
	"path/filepath"
	"runtime"
	"sort"
	"strconv"
	"strings"
	"sync"
	"time"
)

// ---- protocol mirror (kept structurally identical to sim/harness/proto.go) ----

type Job struct {
	Mode     string   `json:"mode"`
	Prop     string   `json:"prop"`
	Tier     string   `json:"tier"`
	Seed     uint64   `json:"seed"`
	Worker   int      `json:"worker"`
	Workers  int      `json:"workers"`
	From     int      `json:"from"`
	To       int      `json:"to"`
	Deadline int64    `json:"deadline"`
	Known    []string `json:"known"`
	Replay   string   `json:"replay"`
	Only     int      `json:"only"`
	DumpLog  bool     `json:"dump_log"`
	MaxViol  int      `json:"max_viol"`
	Spread   bool     `json:"spread,omitempty"`
}

type Violation struct {
	Prop      string `json:"property"`
	Oracle    string `json:"oracle"`
	Signature string `json:"signature"`
	Detail    string `json:"detail"`
}

type Replay struct {
	Violation Violation       `json:"violation"`
	Case      json.RawMessage `json:"case"`
	Minimised bool            `json:"minimised"`
	Note      string          `json:"note,omitempty"`
}

type Stats struct {
	ClockReads   int64             `json:"clock_reads"`
	RandDraws    int64             `json:"rand_draws"`
	Evaluations  int               `json:"evaluations"`
	Runs         int               `json:"runs"`
	Steps        uint64            `json:"steps"`
	Ops          uint64            `json:"ops"`
	Faults       map[string]int    `json:"faults_fired"`
	Probes       map[string]int    `json:"probes"`
	DistinctN    int               `json:"distinct"`
	Samples      []json.RawMessage `json:"samples"`
	Known        map[string]int    `json:"known"`
	SitesHit     int               `json:"sites_hit"`
	Cov          []uint64          `json:"cov,omitempty"`
	DistinctKeys []string          `json:"distinct_keys,omitempty"`
}

type Msg struct {
	T        string          `json:"t"`
	I        int             `json:"i,omitempty"`
	Replay   *Replay         `json:"replay,omitempty"`
	Stats    *Stats          `json:"stats,omitempty"`
	Hash     string          `json:"hash,omitempty"`
	Repro    bool            `json:"repro,omitempty"`
	Text     string          `json:"text,omitempty"`
	Last     int             `json:"last,omitempty"`
	TimedOut bool            `json:"timed_out,omitempty"`
	Info     json.RawMessage `json:"info,omitempty"`
}

type CheckInfo struct {
	Level          string   `json:"level"`
	Rule           string   `json:"rule"`
	Assumptions    []string `json:"assumptions"`
	RealCode       []string `json:"real_components"`
	Stubs          []string `json:"stub_components"`
	RequiredProbes []string `json:"required_probes"`
}

type finding struct {
	ID        string `json:"id"`
	Property  string `json:"property"`
	Status    string `json:"status"`
	Signature string `json:"signature"`
	WhatFails string `json:"what_fails"`
	Commit    string `json:"commit,omitempty"`
}

func loadFindings() ([]finding, error) {
	f, err := os.Open(filepath.Join(verifRoot, "known_findings.jsonl"))
	if err != nil {
		if os.IsNotExist(err) {
			return nil, nil
		}
		return nil, err
	}
	defer f.Close()
	var out []finding
	sc := bufio.NewScanner(f)
	sc.Buffer(make([]byte, 1<<20), 1<<20)
	for sc.Scan() {
		line := strings.TrimSpace(sc.Text())
		if line == "" || strings.HasPrefix(line, "#") {
			continue
		}
		var fd finding
		if err := json.Unmarshal([]byte(line), &fd); err != nil {
			return nil, fmt.Errorf("known_findings.jsonl: %v", err)
		}
		out = append(out, fd)
	}
	return out, sc.Err()
}

func fatal2(format string, a ...interface{}) {
	fmt.Fprintf(os.Stderr, "verifsim: inconclusive: "+format+"\n", a...)
	os.Exit(2)
}

// raceProps are the properties whose check also needs the -race binary.
var raceProps = map[string]bool{"C14": true}

func main() {
	if len(os.Args) < 2 {
		fmt.Fprintln(os.Stderr, "usage: verifsim check <property> [-tier quick|thorough] | replay <file> | build")
		os.Exit(2)
	}
	if d := os.Getenv("VERIF_ROOT"); d != "" {
		verifRoot = d
	} else if wd, err := os.Getwd(); err == nil {
		if _, err := os.Stat(filepath.Join(wd, "sim", "go.mod")); err == nil {
			verifRoot = wd
		}
	}
	if d := os.Getenv("VERIF_REPO"); d != "" {
		repoRoot = d
	}
	os.Setenv("VERIF_REPO", repoRoot)
	switch os.Args[1] {
	case "build":
		bi, err := build("manual", false)
		if err != nil {
			fatal2("%v", err)
		}
		fmt.Printf("built %s: %d files, %d yield sites, %.1fs\n", bi.Bin, bi.Files, bi.Sites, bi.Secs)
	case "check":
		fs := flag.NewFlagSet("check", flag.ExitOnError)
		tier := fs.String("tier", "", "quick | thorough")
		only := fs.Int("only", -1, "run only this case index")
		cases := fs.Int("cases", 0, "override the number of cases")
		budget := fs.Int("budget", 0, "override the wall-clock budget (seconds)")
		if len(os.Args) < 3 {
			fatal2("check needs a property id")
		}
		prop := os.Args[2]
		fs.Parse(os.Args[3:])
		if *tier == "" {
			*tier = os.Getenv("VERIF_TIER")
		}
		if *tier == "" {
			*tier = "quick"
		}
		os.Exit(runCheck(prop, *tier, *only, *cases, *budget))
	case "selftest":
		what := "all"
		if len(os.Args) > 2 {
			what = os.Args[2]
		}
		fails := 0
		if what == "all" || what == "fidelity" {
			fails += selftestFidelity()
		}
		if what == "all" || what == "determinism" {
			props := []string{"C06", "C07", "C08", "C12", "C14", "C15", "C16", "C18"}
			if len(os.Args) > 3 {
				props = os.Args[3:]
			}
			seeds := 3
			fails += selftestDeterminism(props, seeds)
		}
		if fails > 0 {
			fmt.Println("selftest: FAILED")
			os.Exit(2)
		}
		fmt.Println("selftest: ok")
	case "replay":
		if len(os.Args) < 3 {
			fatal2("replay needs a file")
		}
		os.Exit(runReplay(os.Args[2]))
	default:
		fatal2("unknown command %q", os.Args[1])
	}
}

type workerResult struct {
	worker   int
	done     *Msg
	viols    []*Replay
	lastCase int
	died     bool
	exitErr  string
	stderr   string
	hung     bool
}

// runWorker starts one worker process and collects its messages.
func runWorker(bin string, job Job, extraEnv []string, silence time.Duration) *workerResult {
	res := &workerResult{worker: job.Worker, lastCase: -1}
	js, _ := json.Marshal(job)
	cmd := exec.Command(bin, "-test.run", "^TestVerifWorker$", "-test.timeout", "0")
	cmd.Env = append(os.Environ(), "VERIF_JOB="+string(js))
	cmd.Env = append(cmd.Env, extraEnv...)
	pr, pw, err := os.Pipe()
	if err != nil {
		res.died = true
		res.exitErr = err.Error()
		return res
	}
	cmd.ExtraFiles = []*os.File{pw}
	var errBuf strings.Builder
	cmd.Stdout = &limitedWriter{sb: &errBuf, max: 64 << 10}
	cmd.Stderr = cmd.Stdout
	if err := cmd.Start(); err != nil {
		res.died = true
		res.exitErr = err.Error()
		return res
	}
	pw.Close()
	var mu sync.Mutex
	lastActivity := time.Now()
	finished := make(chan struct{})
	go func() {
		t := time.NewTicker(2 * time.Second)
		defer t.Stop()
		for {
			select {
			case <-finished:
				return
			case <-t.C:
				mu.Lock()
				idle := time.Since(lastActivity)
				mu.Unlock()
				if idle > silence {
					res.hung = true
					cmd.Process.Kill()
					return
				}
			}
		}
	}()
	sc := bufio.NewScanner(pr)
	sc.Buffer(make([]byte, 1<<20), 256<<20)
	for sc.Scan() {
		mu.Lock()
		lastActivity = time.Now()
		mu.Unlock()
		var m Msg
		if err := json.Unmarshal(sc.Bytes(), &m); err != nil {
			continue
		}
		switch m.T {
		case "start":
			res.lastCase = m.I
		case "viol":
			res.viols = append(res.viols, m.Replay)
		case "done", "replay":
			mm := m
			res.done = &mm
		}
	}
	err = cmd.Wait()
	close(finished)
	pr.Close()
	res.stderr = errBuf.String()
	if res.done == nil {
		res.died = true
		if err != nil {
			res.exitErr = err.Error()
		}
	}
	return res
}

type limitedWriter struct {
	sb  *strings.Builder
	max int
	mu  sync.Mutex
}

func (l *limitedWriter) Write(p []byte) (int, error) {
	l.mu.Lock()
	defer l.mu.Unlock()
	if l.sb.Len() < l.max {
		n := l.max - l.sb.Len()
		if n > len(p) {
			n = len(p)
		}
		l.sb.Write(p[:n])
	}
	return len(p), nil
}

func defaultSeed() uint64 {
	if s := os.Getenv("VERIF_SEED"); s != "" {
		if v, err := strconv.ParseUint(s, 10, 64); err == nil {
			return v
		}
		if v, err := strconv.ParseInt(s, 10, 64); err == nil {
			return uint64(v)
		}
	}
	return 20260927
}

func numWorkers() int {
	if s := os.Getenv("VERIF_WORKERS"); s != "" {
		if v, err := strconv.Atoi(s); err == nil && v > 0 {
			return v
		}
	}
	n := runtime.NumCPU()
	if n > 16 {
		n = 16
	}
	if n < 1 {
		n = 1
	}
	return n
}

func runCheck(prop, tier string, only, casesOverride, budgetOverride int) int {
	start := time.Now()
	seed := defaultSeed()
	fmt.Printf("verifsim: property=%s tier=%s VERIF_SEED=%d\n", prop, tier, seed)
	findings, err := loadFindings()
	if err != nil {
		fatal2("%v", err)
	}
	var knownSigs []string
	knownBySig := map[string]finding{}
	for _, f := range findings {
		if f.Property == prop && f.Status == "open" {
			knownSigs = append(knownSigs, f.Signature)
			knownBySig[f.Signature] = f
		}
	}
	bi, err := build(prop, false)
	if err != nil {
		fatal2("build: %v", err)
	}
	fmt.Printf("verifsim: built simulator from %s: %d files instrumented, %d yield sites, %.1fs\n", repoRoot, bi.Files, bi.Sites, bi.Secs)
	if len(bi.Bypass) > 0 {
		fatal2("the working tree imports packages that bypass the simulated environment: %s", strings.Join(bi.Bypass, "; "))
	}
	var raceBin string
	if raceProps[prop] {
		rb, err := buildRace(prop)
		if err != nil {
			fatal2("race build: %v", err)
		}
		raceBin = rb.Bin
		fmt.Printf("verifsim: built -race simulator, %.1fs\n", rb.Secs)
	}
	budget := 75
	if tier == "thorough" {
		budget = 1500
	}
	if s := os.Getenv("VERIF_BUDGET_S"); s != "" {
		if v, err := strconv.Atoi(s); err == nil {
			budget = v
		}
	}
	if budgetOverride > 0 {
		budget = budgetOverride
	}
	W := numWorkers()
	extraEnv := []string{"VERIF_REPO=" + repoRoot, "GOMAXPROCS=2"}
	type pool struct {
		bin string
		env []string
	}
	pools := []pool{{bi.Bin, extraEnv}}
	if raceBin != "" {
		raceLog := filepath.Join(verifRoot, "build", prop+"-race", "racelog")
		if old, _ := filepath.Glob(raceLog + ".*"); len(old) > 0 {
			for _, o := range old {
				os.Remove(o)
			}
		}
		raceEnv := []string{"VERIF_REPO=" + repoRoot, "GOMAXPROCS=4", "VERIF_NO_RLIMIT=1", "VERIF_RACE_LOG=" + raceLog, "GORACE=log_path=" + raceLog + " halt_on_error=0 history_size=2", "VERIF_SITES=" + filepath.Join(verifRoot, "build", prop+"-race", "sites.json")}
		pools = append(pools, pool{raceBin, raceEnv})
		budget = budget / 2
	}

	type agg struct {
		stats     Stats
		viols     map[string]*Replay
		deaths    []string
		deathCase []int
		timedOut  bool
		hung      bool
	}
	a := agg{viols: map[string]*Replay{}}
	a.stats.Faults = map[string]int{}
	a.stats.Probes = map[string]int{}
	a.stats.Known = map[string]int{}
	distinct := map[string]bool{}
	cov := []uint64{}
	var mu sync.Mutex
	var wg sync.WaitGroup
	merge := func(r *workerResult) {
		mu.Lock()
		defer mu.Unlock()
		for _, v := range r.viols {
			if _, ok := a.viols[v.Violation.Signature]; !ok {
				a.viols[v.Violation.Signature] = v
			}
		}
		if r.done != nil && r.done.Stats != nil {
			s := r.done.Stats
			a.stats.Evaluations += s.Evaluations
			a.stats.Runs += s.Runs
			a.stats.Steps += s.Steps
			a.stats.Ops += s.Ops
			a.stats.ClockReads += s.ClockReads
			a.stats.RandDraws += s.RandDraws
			for k, v := range s.Faults {
				a.stats.Faults[k] += v
			}
			for k, v := range s.Probes {
				a.stats.Probes[k] += v
			}
			for k, v := range s.Known {
				a.stats.Known[k] += v
			}
			for _, k := range s.DistinctKeys {
				distinct[k] = true
			}
			if len(a.stats.Samples) < 4 {
				a.stats.Samples = append(a.stats.Samples, s.Samples...)
			}
			if len(cov) < len(s.Cov) {
				cov = append(cov, make([]uint64, len(s.Cov)-len(cov))...)
			}
			for i, w := range s.Cov {
				cov[i] |= w
			}
			if r.done.TimedOut {
				a.timedOut = true
			}
		}
	}
	// the thorough tier explores the same families under several seeds, sharing the budget
	seeds := []uint64{seed}
	if tier == "thorough" && only < 0 {
		n := 3
		if s := os.Getenv("VERIF_NSEEDS"); s != "" {
			if v, err := strconv.Atoi(s); err == nil && v > 0 {
				n = v
			}
		}
		for k := 1; k < n; k++ {
			seeds = append(seeds, seed+uint64(k))
		}
		budget = budget / len(seeds)
	}
	var deathSeed []uint64
	for _, seed := range seeds {
		for _, pl := range pools {
			pl := pl
			seed := seed
			deadline := time.Now().Add(time.Duration(budget) * time.Second).Unix()
			for w := 0; w < W; w++ {
				wg.Add(1)
				go func(w int) {
					defer wg.Done()
					from := 0
					for restarts := 0; restarts < 25; restarts++ {
						mu.Lock()
						tooMany := len(a.deaths) >= 6
						mu.Unlock()
						if tooMany {
							// enough dead workers to report; do not spend the budget on more
							return
						}
						job := Job{Mode: "run", Prop: prop, Tier: tier, Seed: seed, Worker: w, Workers: W, From: from, To: casesOverride, Deadline: deadline, Known: knownSigs, Only: only, MaxViol: 3}
						r := runWorker(pl.bin, job, pl.env, 180*time.Second)
						merge(r)
						if !r.died {
							return
						}
						mu.Lock()
						if r.hung {
							a.hung = true
						}
						a.deaths = append(a.deaths, fmt.Sprintf("worker %d died at case %d: %s\n%s", w, r.lastCase, r.exitErr, clip(r.stderr, 4000)))
						a.deathCase = append(a.deathCase, r.lastCase)
						deathSeed = append(deathSeed, seed)
						mu.Unlock()
						if r.lastCase < 0 || only >= 0 {
							return
						}
						from = r.lastCase + 1
					}
				}(w)
			}
			wg.Wait()
		}
	}

	// ---- supervise worker deaths -------------------------------------------------
	exit := 0
	var lines []string
	if a.hung {
		fatal2("a worker made no progress for 180 s of wall-clock time (loop in un-instrumented code?)\n%s", strings.Join(a.deaths, "\n"))
	}
	for i, d := range a.deaths {
		ci := a.deathCase[i]
		if ci < 0 {
			fatal2("worker died before its first case:\n%s", d)
		}
		// confirm in a fresh process
		seed := deathSeed[i]
		job := Job{Mode: "run", Prop: prop, Tier: tier, Seed: seed, Worker: 0, Workers: 1, From: ci, To: ci + 1, Only: ci, Known: knownSigs}
		r := runWorker(bi.Bin, job, extraEnv, 180*time.Second)
		for try := 0; try < 4 && !r.died; try++ {
			// a death that depends on how goroutines of a changed gopatch happen to
			// interleave may need more than one attempt
			r = runWorker(bi.Bin, job, extraEnv, 180*time.Second)
		}
		if !r.died {
			fatal2("worker death at case %d did not reproduce in a fresh process:\n%s", ci, d)
		}
		sig := prop + "/process-death/" + deathSignature(r.stderr)
		if f, ok := knownBySig[sig]; ok {
			a.stats.Known[sig]++
			_ = f
			continue
		}
		if prop != "C08" {
			// crashes are judged by C08; here the case is simply not decidable
			fmt.Printf("verifsim: note: case %d kills the process (%s); crashes are property C08's domain\n", ci, deathSignature(r.stderr))
			continue
		}
		rp := &Replay{Violation: Violation{Prop: prop, Oracle: "process-death", Signature: sig, Detail: clip(r.stderr, 3000)}, Note: "regenerate with: verifsim check " + prop + " -tier " + tier + " -only " + strconv.Itoa(ci)}
		rp.Case, _ = json.Marshal(map[string]interface{}{"property": prop, "idx": ci, "seed": seed, "tier": tier, "process_death": true})
		if _, ok := a.viols[sig]; !ok {
			a.viols[sig] = rp
		}
	}

	// ---- the same cases in two differently started processes ------------------------
	crossN := 0
	if crossProcessProps[prop] && only < 0 {
		n := 160
		if tier == "thorough" {
			n = 4000
		}
		if casesOverride > 0 && casesOverride < n {
			n = casesOverride
		}
		idx, detail, err := crossProcess(bi.Bin, prop, tier, seed, n, -1, extraEnv)
		if err != nil {
			fatal2("cross-process phase: %v", err)
		}
		crossN = n
		if idx >= 0 {
			sig := prop + "/nondeterministic/across-processes"
			rp := &Replay{Violation: Violation{Prop: prop, Oracle: "cross-process", Signature: sig, Detail: detail}, Note: "the case is evaluated in several fresh processes that differ in the time at which they start (VERIF_PROC_CLOCK), in the seed of the package-level random generators (VERIF_PROC_RAND) and in GOMAXPROCS"}
			rp.Case, _ = json.Marshal(map[string]interface{}{"property": prop, "idx": idx, "seed": seed, "tier": tier, "cross_process": map[string]interface{}{"sample": n, "envs": crossEnvs}})
			a.viols[sig] = rp
		}
	}

	// ---- violations ---------------------------------------------------------------
	var sigs []string
	for s := range a.viols {
		sigs = append(sigs, s)
	}
	sort.Strings(sigs)
	os.MkdirAll(filepath.Join(verifRoot, "replays"), 0o755)
	nviol := 0
	for _, s := range sigs {
		rp := a.viols[s]
		if _, ok := knownBySig[s]; ok {
			a.stats.Known[s]++
			continue
		}
		name := fmt.Sprintf("%s-%d-%s.json", prop, seed, sanitize(s))
		path := filepath.Join(verifRoot, "replays", name)
		b, _ := json.MarshalIndent(rp, "", " ")
		os.WriteFile(path, b, 0o644)
		confirmed := true
		if rp.Violation.Oracle == "cross-process" {
			var cs struct {
				Idx   int `json:"idx"`
				Cross struct {
					Sample int `json:"sample"`
				} `json:"cross_process"`
			}
			json.Unmarshal(rp.Case, &cs)
			idx, _, err := crossProcess(bi.Bin, prop, tier, seed, cs.Cross.Sample, cs.Idx, extraEnv)
			confirmed = err == nil && idx >= 0
		} else if rp.Violation.Oracle != "process-death" {
			confirmed = false
			for try := 0; try < 8 && !confirmed; try++ {
				for _, pl := range pools {
					rr := runWorker(pl.bin, Job{Mode: "replay", Replay: path, Only: -1}, pl.env, 180*time.Second)
					if rr.done != nil && rr.done.Repro {
						confirmed = true
					} else if rr.died && prop == "C08" {
						confirmed = true
					}
				}
			}
		}
		if !confirmed {
			fmt.Printf("verifsim: violation %s did not reproduce from its replay file %s\n  %s\n", s, path, clip(rp.Violation.Detail, 500))
			exit = 2
			continue
		}
		nviol++
		lines = append(lines, fmt.Sprintf("VIOLATION property=%s replay=%s", prop, path))
		fmt.Printf("verifsim: %s: %s\n  %s\n", rp.Violation.Oracle, s, clip(rp.Violation.Detail, 1200))
	}
	// known findings
	var ksigs []string
	for s := range a.stats.Known {
		ksigs = append(ksigs, s)
	}
	sort.Strings(ksigs)
	for _, s := range ksigs {
		if f, ok := knownBySig[s]; ok {
			fmt.Printf("KNOWN-FINDING: property=%s %s [%s] (hit %d times)\n", prop, f.WhatFails, f.ID, a.stats.Known[s])
		}
	}

	// ---- evidence -----------------------------------------------------------------
	info := queryInfo(bi.Bin, prop, extraEnv)
	wall := time.Since(start).Seconds()
	sitesHit := 0
	for _, w := range cov {
		for ; w != 0; w &= w - 1 {
			sitesHit++
		}
	}
	// which yield sites of gopatch no case of this run reached (a list next to the
	// build, for steering workloads; the count goes into the evidence)
	if sb, err := os.ReadFile(filepath.Join(verifRoot, "build", prop, "sites.json")); err == nil && only < 0 {
		var sites []struct {
			ID   int    `json:"id"`
			File string `json:"file"`
			Line int    `json:"line"`
			Func string `json:"func"`
		}
		if json.Unmarshal(sb, &sites) == nil {
			var unc []string
			for _, st := range sites {
				w, b := (st.ID>>6)&(1<<14-1), uint(st.ID&63)
				if w >= len(cov) || cov[w]&(1<<b) == 0 {
					unc = append(unc, fmt.Sprintf("%s:%d %s", st.File, st.Line, st.Func))
				}
			}
			os.WriteFile(filepath.Join(verifRoot, "build", prop, "uncovered_sites.txt"), []byte(strings.Join(unc, "\n")+"\n"), 0o644)
		}
	}
	var missing []string
	for _, p := range info.RequiredProbes {
		if a.stats.Probes[p] == 0 {
			missing = append(missing, p)
		}
	}
	samples := a.stats.Samples
	if len(samples) == 0 {
		samples = []json.RawMessage{json.RawMessage(`"no case produced a sample"`)}
	}
	runsPerHour := 0.0
	if wall > 0 {
		runsPerHour = float64(a.stats.Runs) / wall * 3600
	}
	cover := map[string]interface{}{
		"evaluations":               a.stats.Evaluations,
		"distinct_nontrivial":       len(distinct),
		"rule":                      info.Rule,
		"samples":                   samples,
		"exhaustive":                false,
		"simulated_runs":            a.stats.Runs,
		"simulated_runs_per_hour":   int64(runsPerHour),
		"cases_per_hour":            int64(float64(a.stats.Evaluations) / wall * 3600),
		"seeds_per_hour":            float64(len(seeds)) / wall * 3600,
		"seeds":                     seeds,
		"logical_steps":             a.stats.Steps,
		"filesystem_and_stream_ops": a.stats.Ops,
		"simulated_time":            fmt.Sprintf("gopatch has no timers and reads no clock: the simulated clock (time is redirected to sim/simtime, set per run and per process) was read %d times and the package-level random generators (math/rand redirected likewise) were consulted %d times in this run; progress is measured in logical steps (yield points) and environment operations", a.stats.ClockReads, a.stats.RandDraws),
		"faults_fired":              a.stats.Faults,
		"probes":                    a.stats.Probes,
		"required_probes_missing":   missing,
		"yield_sites_hit":           sitesHit,
		"yield_sites_total":         bi.Sites,
		"real_components":           info.RealCode,
		"stub_components":           info.Stubs,
		"known_findings_hit":        a.stats.Known,
		"workers":                   W,
		"budget_exhausted":          a.timedOut,
		"worker_deaths":             len(a.deaths),
	}
	if crossN > 0 {
		cover["cases_compared_across_differently_started_processes"] = crossN
	}
	ev := map[string]interface{}{
		"property_id": prop,
		"tier":        tier,
		"seed":        seed,
		"level":       info.Level,
		"coverage":    cover,
		"assumptions": info.Assumptions,
		"wall_s":      wall,
		"violations":  nviol,
	}
	evDir := filepath.Join(verifRoot, "evidence")
	if d := os.Getenv("VERIF_EVIDENCE_DIR"); d != "" {
		evDir = d
	}
	os.MkdirAll(evDir, 0o755)
	eb, _ := json.MarshalIndent(ev, "", " ")
	if only < 0 && a.stats.Evaluations > 0 {
		// a single-case debugging run or a run that evaluated nothing is not evidence
		if err := os.WriteFile(filepath.Join(evDir, prop+".json"), eb, 0o644); err != nil {
			fatal2("write evidence: %v", err)
		}
	}
	fmt.Printf("verifsim: %d cases, %d simulated runs, %d distinct non-trivial, %d ops, %d steps, sites %d/%d, %.1fs%s\n",
		a.stats.Evaluations, a.stats.Runs, len(distinct), a.stats.Ops, a.stats.Steps, sitesHit, bi.Sites, wall, map[bool]string{true: " (time budget reached)", false: ""}[a.timedOut])
	if len(missing) > 0 {
		fmt.Printf("verifsim: warning: required probes never hit: %v\n", missing)
	}
	for _, l := range lines {
		fmt.Println(l)
	}
	if nviol > 0 {
		return 1
	}
	if a.stats.Evaluations == 0 {
		fatal2("no case was evaluated")
	}
	return exit
}

func queryInfo(bin, prop string, extraEnv []string) CheckInfo {
	r := runWorker(bin, Job{Mode: "info", Prop: prop, Only: -1}, extraEnv, 60*time.Second)
	var ci CheckInfo
	if r.done != nil && r.done.Text != "" {
		json.Unmarshal([]byte(r.done.Text), &ci)
	}
	if ci.Level == "" {
		ci.Level = "exploration"
	}
	return ci
}

func buildRace(prop string) (*buildInfo, error) { return build(prop+"-race", true) }

func deathSignature(stderr string) string {
	for _, line := range strings.Split(stderr, "\n") {
		l := strings.TrimSpace(line)
		if strings.HasPrefix(l, "fatal error:") || strings.HasPrefix(l, "panic:") || strings.HasPrefix(l, "WARNING: DATA RACE") {
			if len(l) > 80 {
				l = l[:80]
			}
			return l
		}
	}
	return "unknown"
}

func sanitize(s string) string {
	var b strings.Builder
	for _, c := range s {
		switch {
		case c >= 'a' && c <= 'z', c >= 'A' && c <= 'Z', c >= '0' && c <= '9', c == '-', c == '_':
			b.WriteRune(c)
		default:
			b.WriteByte('_')
		}
	}
	out := b.String()
	if len(out) > 90 {
		out = out[:90]
	}
	return out
}

func clip(s string, n int) string {
	if len(s) > n {
		return s[:n] + "…"
	}
	return s
}

func runReplay(path string) int {
	b, err := os.ReadFile(path)
	if err != nil {
		fatal2("%v", err)
	}
	var rp struct {
		Violation Violation `json:"violation"`
		Case      struct {
			Prop string `json:"property"`
		} `json:"case"`
	}
	if err := json.Unmarshal(b, &rp); err != nil {
		fatal2("bad replay file: %v", err)
	}
	prop := rp.Case.Prop
	bi, err := build(prop, false)
	if err != nil {
		fatal2("build: %v", err)
	}
	if rp.Violation.Oracle == "cross-process" {
		var cs struct {
			Case struct {
				Idx   int    `json:"idx"`
				Seed  uint64 `json:"seed"`
				Tier  string `json:"tier"`
				Cross struct {
					Sample int `json:"sample"`
				} `json:"cross_process"`
			} `json:"case"`
		}
		json.Unmarshal(b, &cs)
		abs, _ := filepath.Abs(path)
		idx, detail, err := crossProcess(bi.Bin, prop, cs.Case.Tier, cs.Case.Seed, cs.Case.Cross.Sample, cs.Case.Idx, []string{"VERIF_REPO=" + repoRoot})
		if err != nil {
			fatal2("replay: %v", err)
		}
		if idx >= 0 {
			fmt.Println(detail)
			fmt.Printf("VIOLATION property=%s replay=%s\n", prop, abs)
			return 1
		}
		fmt.Println("replay: the recorded violation did not occur on the current tree")
		return 0
	}
	extraEnv := []string{"VERIF_REPO=" + repoRoot, "GOMAXPROCS=2"}
	if raceProps[prop] {
		rb, err := buildRace(prop)
		if err != nil {
			fatal2("race build: %v", err)
		}
		abs, _ := filepath.Abs(path)
		raceLog := filepath.Join(verifRoot, "build", prop+"-race", "racelog-replay")
		raceEnv := []string{"VERIF_REPO=" + repoRoot, "GOMAXPROCS=4", "VERIF_NO_RLIMIT=1", "VERIF_RACE_LOG=" + raceLog, "GORACE=log_path=" + raceLog + " halt_on_error=0 history_size=2", "VERIF_SITES=" + filepath.Join(verifRoot, "build", prop+"-race", "sites.json")}
		rr := runWorker(rb.Bin, Job{Mode: "replay", Replay: abs, Only: -1}, raceEnv, 180*time.Second)
		if rr.done != nil && rr.done.Repro {
			fmt.Print(rr.done.Text)
			fmt.Printf("VIOLATION property=%s replay=%s\n", prop, abs)
			return 1
		}
	}
	abs, _ := filepath.Abs(path)
	r := runWorker(bi.Bin, Job{Mode: "replay", Replay: abs, Only: -1}, extraEnv, 180*time.Second)
	if r.died {
		fmt.Printf("replay: the process died: %s\n%s\n", r.exitErr, clip(r.stderr, 4000))
		if prop == "C08" {
			fmt.Printf("VIOLATION property=%s replay=%s\n", prop, abs)
			return 1
		}
		return 2
	}
	fmt.Print(r.done.Text)
	if r.done.Repro {
		fmt.Printf("VIOLATION property=%s replay=%s\n", prop, abs)
		return 1
	}
	fmt.Println("replay: the recorded violation did not occur on the current tree")
	return 0
}

// crossProcessProps lists the properties that promise the same result "on every
// run": a sample of their cases is evaluated in two fresh worker processes that
// differ in everything a process inherits from the moment and the machine it is
// started on, and the per-case event-log hashes must agree.
var crossProcessProps = map[string]bool{"C14": true}

var crossEnvs = [][]string{
	{"VERIF_PROC_CLOCK=1700000000", "VERIF_PROC_RAND=1", "GOMAXPROCS=2"},
	{"VERIF_PROC_CLOCK=1893456001", "VERIF_PROC_RAND=7919", "GOMAXPROCS=16"},
	{"VERIF_PROC_CLOCK=1234567891", "VERIF_PROC_RAND=-5", "GOMAXPROCS=1"},
	{"VERIF_PROC_CLOCK=4102444806", "VERIF_PROC_RAND=1000003", "GOMAXPROCS=5"},
	{"VERIF_PROC_CLOCK=946684799", "VERIF_PROC_RAND=42", "GOMAXPROCS=3"},
	{"VERIF_PROC_CLOCK=2000000002", "VERIF_PROC_RAND=65537", "GOMAXPROCS=8"},
}

// crossProcess returns the first case of the sample (or the one given) whose
// hash differs between the processes, or -1.
func crossProcess(bin, prop, tier string, seed uint64, n, only int, extraEnv []string) (int, string, error) {
	np := 4
	if tier == "thorough" {
		np = len(crossEnvs)
	}
	hs := make([]map[int]string, np)
	errs := make([]error, np)
	var wg sync.WaitGroup
	W := numWorkers() / np
	if W < 1 || only >= 0 {
		W = 1
	}
	for k := 0; k < np; k++ {
		wg.Add(1)
		go func(k int) {
			defer wg.Done()
			env := append(append([]string{}, extraEnv...), crossEnvs[k]...)
			hs[k], errs[k] = collectHashesOnly(bin, prop, tier, seed, n, W, env, only)
		}(k)
	}
	wg.Wait()
	for _, e := range errs {
		if e != nil {
			return -1, "", e
		}
	}
	var idx []int
	for i := range hs[0] {
		idx = append(idx, i)
	}
	sort.Ints(idx)
	if len(idx) == 0 {
		return -1, "", fmt.Errorf("no case was evaluated")
	}
	for _, i := range idx {
		for k := 1; k < np; k++ {
			if hs[0][i] != hs[k][i] {
				return i, fmt.Sprintf("case %d of a %d-case sample (seed %d, tier %s) gives event-log hash %s in a process started with %v and %s in one started with %v: what gopatch does depends on when or where the process was started", i, n, seed, tier, hs[0][i], crossEnvs[0], hs[k][i], crossEnvs[k]), nil
			}
		}
	}
	return -1, "", nil
}
