// Package ioutil (import path verif.local/sim/simioutil) stands in for
// io/ioutil in the instrumented copy of gopatch.
package ioutil

import (
	"io"
	"io/fs"
	"sort"

	os "verif.local/sim/simos"
)

var Discard = io.Discard

func ReadAll(r io.Reader) ([]byte, error)  { return io.ReadAll(r) }
func NopCloser(r io.Reader) io.ReadCloser  { return io.NopCloser(r) }
func ReadFile(name string) ([]byte, error) { return os.ReadFile(name) }
func WriteFile(name string, data []byte, perm fs.FileMode) error {
	return os.WriteFile(name, data, perm)
}
func TempFile(dir, pattern string) (*os.File, error) { return os.CreateTemp(dir, pattern) }
func TempDir(dir, pattern string) (string, error)    { return os.MkdirTemp(dir, pattern) }

func ReadDir(dirname string) ([]fs.FileInfo, error) {
	f, err := os.Open(dirname)
	if err != nil {
		return nil, err
	}
	list, err := f.Readdir(-1)
	f.Close()
	if err != nil {
		return nil, err
	}
	sort.Slice(list, func(i, j int) bool { return list[i].Name() < list[j].Name() })
	return list, nil
}
