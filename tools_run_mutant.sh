#!/bin/sh
# usage: tools_run_mutant.sh <patch.diff> [property ...]
# Applies a seeded change to /repo, runs the quick checks (evidence redirected
# to a scratch directory), and restores /repo. Prints one line per property.
set -u
patch="$1"; shift
props="${*:-C06 C07 C08 C12 C14 C15 C16 C18}"
cd /verif || exit 2
if ! git -C /repo diff --quiet; then echo "refusing: /repo has uncommitted changes" >&2; exit 2; fi
git -C /repo apply "$patch" || { echo "patch does not apply" >&2; exit 2; }
trap 'git -C /repo checkout -- . ; git -C /repo clean -fdq' EXIT INT TERM
export VERIF_EVIDENCE_DIR=/tmp/mut-evidence
mkdir -p "$VERIF_EVIDENCE_DIR"
for p in $props; do
  out=$(./check "$p" quick 2>&1); rc=$?
  nv=$(printf '%s\n' "$out" | grep -c '^VIOLATION')
  first=$(printf '%s\n' "$out" | grep -m1 -E '^verifsim: [a-z-]+: C[0-9]+/' | cut -c1-160)
  echo "$p exit=$rc violations=$nv $first"
done
