#!/bin/sh
# Offline setup: build the coordinator and warm the Go build cache.
set -eu
cd "$(dirname "$0")"
export GOFLAGS=-mod=mod GOPROXY=off GOSUMDB=off GOTOOLCHAIN=local GOWORK=off
mkdir -p bin evidence replays build
go build -o bin/verifsim ./cmd/verifsim
./bin/verifsim build
