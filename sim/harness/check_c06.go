package harness

import (
	"bytes"
	"fmt"
	"path"
	"strings"

	"verif.local/sim/world"
)

// C06 — No match means no effect.
type c06 struct{}

func init() { Register(c06{}) }

func (c06) ID() string { return "C06" }

func (c06) NumCases(tier string) int {
	if tier == "thorough" {
		return 1_500_000
	}
	return 15_000
}

func (c06) Describe() CheckInfo {
	return CheckInfo{
		Level: "exploration",
		Rule: "seeded worlds of 1-6 Go files (non-canonical layouts, corpus inputs, unparseable and matching neighbours) x 1-3 generated patch files x all 32 flag combinations, " +
			"run through gopatch's real main() on the simulated filesystem; every tenth world is re-run with each operation of its fault-free run failed once (output stream at its first, last and a middle byte; neighbours' reads and writes, also persistently; kills): unmatched files must stay untouched and exit status 0 must still mean a complete echo; a case is non-trivial when it contains at least one file that cannot match by construction; a third of the generated unmatched files are near misses that mention the triggers (pattern and file differ in one spelled-out token: variadic '...', '=', arity, receiver, package name; or the trigger sits in a string, comment or longer identifier); " +
			"distinct = distinct (template multiset, unmatched-file layout styles, flag set, patch channel) tuples",
		Assumptions: []string{
			"a file whose bytes lack the trigger identifier of every supplied change cannot be an instance of any '-' pattern; near-miss files mention the trigger but differ from the pattern in a token it spells out (variadic '...', '=', arity, receiver, package name) or carry it only in strings, comments and longer identifiers (other matcher false positives are property C01, not C06)",
			"process-level observation: op log of the simulated os package, final inode state, stdout, stderr, exit status",
		},
		RealCode:       []string{"gopatch main()/runMain/mainCmd.Run, loader, patch.Parse/File.Apply, internal/*, go-flags, pkg/diff, x/tools/imports, go-intervals, go/parser, go/printer"},
		Stubs:          []string{"package os (simulated filesystem, streams, exit)", "path/filepath filesystem half", "io/ioutil"},
		RequiredProbes: []string{"unmatched-noncanonical", "unmatched-with-matching-neighbour", "print-only-echo", "diff-mode", "api-apply-unmatched", "verbose", "echo-adjacency-checked", "unmatched-readonly-or-odd-mode", "api-earlier-call-on-shared-patch", "fault-fired", "fault-on-stdout-in-print-mode", "many-files-under-descriptor-limit", "line-directive-names-sibling-file", "file-grows-between-walk-and-read", "underscore-or-dot-named-file", "unmatched-near-miss", "no-patch-supplied", "unmatched-file-without-declarations"},
	}
}

func (c06) Gen(env *Env, seed uint64, tier string, i int) *Case {
	r := world.NewPRNG(world.Mix(seed, 6, uint64(i)))
	c := NewCLICase("C06", "cli", i, seed)
	pp := GenPatchPlan(r, 3, Templates)
	pp.Install(c, r)
	all := pp.All()
	var triggers []string
	for _, ch := range all {
		triggers = append(triggers, ch.T.Trigger(ch.K))
	}
	if r.Chance(1, 4) {
		// a patch whose replacement fails at rewrite time for the file it matches
		for i := range c.Patches {
			if c.Patches[i].Via == "stdin" {
				c.Patches[i].Via = "p"
				c.Patches[i].Path = PatDir + "/p0.patch"
				c.SetNode(world.NodeSpec{Path: c.Patches[i].Path, Kind: "file", Data: c.Patches[i].Data})
			}
		}
		c.AddPatch("ill.patch", c.Patches[0].Via, []byte("@@\nvar x expression\n@@\n-vfOldE(x)\n+bar(func() { var x int })\n\n@@\nvar y expression\n@@\n-vfOldF(y)\n+vfNewF(y, z)\n"), nil, []string{"vfOldE", "vfOldF"})
		triggers = append(triggers, "vfOldE", "vfOldF")
		c.Extra["ill_patch"] = "1"
	}
	corpus := Corpus()
	n := r.Range(1, 6)
	for j := 0; j < n; j++ {
		dir := ""
		if r.Chance(1, 3) {
			dir = r.Pick([]string{"pkg/", "internal/x/", "cmd/tool/"})
		} else if r.Chance(1, 6) {
			dir = OddDir(r)
		}
		roll := r.Intn(100)
		switch {
		case roll < 60:
			style := r.Pick(Styles)
			var data []byte
			note := style
			if len(corpus) > 0 && r.Chance(1, 4) {
				cc := corpus[r.Intn(len(corpus))]
				data = append([]byte(nil), cc.Inputs[r.Intn(len(cc.Inputs))].Data...)
				note = "corpus:" + cc.Name
			} else if r.Chance(1, 12) {
				// nothing but a package clause (and its documentation): no declaration
				// at all, and unmatched like any other
				uid := fmt.Sprintf("%d-%d", i, j) // the echo is looked up by content: keep it unique
				data = []byte(r.Pick([]string{
					"package sample // part " + uid + "\n",
					"// Package sample is documented here (part " + uid + ").\n//\n// Nothing else lives in this file.\npackage sample\n",
					"//go:build ignore\n\n// part " + uid + "\npackage sample\n",
					"package sample // nothing yet\n\n// TODO(" + uid + "): move the helpers here\n",
					"package   sample /* " + uid + " */",
				}))
				note = "no-declarations"
				c.Extra["no_decls"] = "1"
			} else if r.Chance(1, 3) {
				// mentions the triggers, and still nothing in it is an instance
				data = NearMissFile(r, all, style, r.Pick(plainHeaders))
				note = "near-miss:" + style
				c.Extra["near_miss"] = "1"
			} else {
				data = NonMatchingFile(r, style, r.Pick(plainHeaders))
			}
			if !strings.HasPrefix(note, "near-miss:") && ContainsAny(data, triggers) || ContainsAny(data, []string{"Code generated", "@generated"}) {
				continue
			}
			fname := fmt.Sprintf("%snm%d.go", dir, j)
			if r.Chance(1, 6) {
				// names the go tool ignores, which gopatch does not: they sort before
				// their siblings
				fname = fmt.Sprintf("%s%snm%d.go", dir, r.Pick([]string{"_", "."}), j)
				c.Extra["underscore_named"] = "1"
			}
			p := c.AddFile(fname, data, "nomatch", nil, note)
			if r.Chance(1, 5) {
				// read-only and otherwise unusual permission bits
				c.SetNode(world.NodeSpec{Path: p, Kind: "file", Data: data, Mode: []uint32{0o444, 0o555, 0o400, 0o640, 0o664}[r.Intn(5)]})
				env.Probe("unmatched-readonly-or-odd-mode")
			}
		case roll < 88:
			// a file matched by a random non-empty subset of the changes
			var cs []Change
			for _, ch := range all {
				if r.Chance(1, 2) {
					cs = append(cs, ch)
				}
			}
			if len(cs) == 0 {
				cs = []Change{all[r.Intn(len(all))]}
			}
			var ms []string
			for _, ch := range cs {
				if ch.Marker != "" {
					ms = append(ms, ch.Marker)
				}
			}
			hdr := ""
			if r.Chance(1, 5) && len(c.Files) > 0 {
				// positions in this file are attributed to ANOTHER file of the run
				o := c.Files[r.Intn(len(c.Files))]
				hdr = "//line " + r.Pick([]string{o.Path, strings.TrimPrefix(o.Path, ProjDir+"/"), path.Base(o.Path)}) + ":1\n"
				c.Extra["line_names_sibling"] = "1"
			}
			c.AddFile(fmt.Sprintf("%smt%d.go", dir, j), MatchingFile(r, cs, "canonical", hdr), "match", ms, "")
		default:
			c.AddFile(fmt.Sprintf("%sbad%d.go", dir, j), UnparseableFile(r), "unparseable", nil, "")
		}
	}
	if len(c.Files) == 0 {
		c.AddFile("nm0.go", NonMatchingFile(r, r.Pick(Styles), ""), "nomatch", nil, "")
	}
	if r.Chance(1, 12) {
		// many small unmatched files under a tight descriptor limit: whatever is
		// opened per file must be closed again per file
		nmany := r.Range(30, 70)
		for j := 0; j < nmany; j++ {
			c.AddFile(fmt.Sprintf("many/u%03d.go", j), []byte(fmt.Sprintf("package many\n\nvar  U%d   =  %d\n", j, j)), "nomatch", nil, "tiny")
		}
		c.Spec.Knobs.MaxOpenFiles = r.Range(8, 20)
		c.Extra["fd_limit"] = "1"
	}
	AddDecoys(c, r)
	c.Flags = Flags{Diff: r.Chance(1, 3), Print: r.Chance(1, 3), SkipImport: r.Chance(1, 3), SkipGen: r.Chance(1, 3), Verbose: r.Chance(1, 3)}
	// targets: individual files, or the project directory
	switch r.Intn(3) {
	case 0:
		c.Targets = []string{r.Pick([]string{".", "./...", ProjDir})}
	default:
		for _, f := range c.Files {
			rel := strings.TrimPrefix(f.Path, ProjDir+"/")
			if r.Chance(1, 4) {
				rel = f.Path
			}
			c.Targets = append(c.Targets, rel)
		}
		p := r.Perm(len(c.Targets))
		t2 := make([]string, len(p))
		for a, b := range p {
			t2[a] = c.Targets[b]
		}
		c.Targets = t2
	}
	if r.Chance(1, 4) && len(c.Files) > 0 {
		// the same file reached twice, through differently spelled arguments
		f := c.Files[r.Intn(len(c.Files))]
		rel := strings.TrimPrefix(f.Path, ProjDir+"/")
		c.Targets = append(c.Targets, r.Pick([]string{f.Path, rel, "./" + rel, "."}))
		c.Extra["dup"] = "1"
	}
	if r.Chance(1, 3) {
		c.Spec.Knobs.StdinChunk = -16
		c.Spec.Knobs.FileChunk = -64
	}
	if r.Chance(1, 25) {
		// no patch at all: the list given with -P names nothing (a patch that would
		// match waits on standard input, unasked for). Every file is unmatched.
		c.Extra["no_patches"] = "1"
		c.Extra["list_style"] = r.Pick([]string{"", "blank-lines"})
		for k := range c.Files {
			if c.Files[k].Role == "match" {
				c.Files[k].Role = "nomatch"
				c.Files[k].Note = "no-patch-supplied"
				c.Files[k].Markers = nil
			}
		}
	}
	if i%10 == 9 {
		c.Sub = "fault"
		c.Extra["rng"] = fmt.Sprint(r.Uint64())
	}
	c.RebuildArgs()
	return c
}

// c06Faults: whatever goes wrong around them (output stream failing at any
// byte, neighbours that cannot be read or written, a persistently full disk),
// unmatched files stay untouched, and an exit status of 0 still means that
// --print-only echoed every one of them completely.
func c06Faults(env *Env, c *Case) []Violation {
	var vs []Violation
	seen := map[string]bool{}
	base := c.Spec.Clone()
	base.Faults = nil
	init := c.InitialState()
	judge := func(faults []world.Fault) {
		spec := base.Clone()
		spec.Faults = faults
		r := env.Run(spec)
		if len(r.Fired) == 0 || (r.Outcome != OutExit && r.Outcome != OutKilled) {
			return
		}
		first := r.Fired[0]
		env.Probe("fault-fired")
		if first.Name == "stdout" && c.Flags.Print {
			env.Probe("fault-on-stdout-in-print-mode")
		}
		env.Seen("fault|" + first.Name + "|" + first.Fault + "|" + c.Flags.String())
		add := func(oracle, sig, detail string) {
			s := "C06/" + oracle + "/" + sig
			if seen[s] {
				return
			}
			seen[s] = true
			cc := c.Clone()
			cc.Spec.Faults = faults
			vs = append(vs, Violation{Oracle: oracle, Signature: s, Detail: detail + fmt.Sprintf(" [after injected %s on %s %s (%s, %d bytes let through); args %v]", first.Fault, first.Name, first.Path, first.Err, first.N, c.Spec.Args), Case: cc})
		}
		stdoutFaulted := false
		for _, f := range r.Fired {
			if f.Name == "stdout" {
				stdoutFaulted = true
			}
		}
		for _, f := range c.Files {
			if f.Role != "nomatch" {
				continue
			}
			before := FindState(init, f.Path)
			after := FindState(r.Final, f.Path)
			for _, o := range r.Log {
				if o.Mut && !o.Post && (o.Path == f.Path || o.Path2 == f.Path || (before != nil && o.Ino == before.Ino)) {
					add("touched-under-fault", o.Name, fmt.Sprintf("unmatched file %s was the target of mutating op %s", f.Path, o.Name))
					break
				}
			}
			switch {
			case after == nil:
				add("state-under-fault", "removed", fmt.Sprintf("unmatched file %s no longer exists", f.Path))
			case before.Ino != after.Ino || !bytes.Equal(before.Data, after.Data) || before.Mtime != after.Mtime || before.Perm != after.Perm:
				add("state-under-fault", "changed", fmt.Sprintf("unmatched file %s changed on disk (inode, bytes, mtime or mode)", f.Path))
			}
			if r.Outcome == OutExit && r.Exit == 0 && c.Flags.Print && !bytes.Contains(r.Stdout, before.Data) {
				env.Probe("fault-exit0-echo-checked")
				what := "although no output failed"
				if stdoutFaulted {
					what = "although writing the output failed"
				}
				add("print-echo", "incomplete-but-exit-0", fmt.Sprintf("exit status 0 %s, and --print-only did not echo the complete original bytes of unmatched file %s", what, f.Path))
			}
		}
	}
	if len(c.Spec.Faults) > 0 {
		if c.Spec.Faults[0].Kind == "extern" {
			if pilot := env.Run(base); pilot.Outcome == OutExit {
				return c06Extern(env, c, base, pilot)
			}
			return nil
		}
		judge(c.Spec.Faults)
		return vs
	}
	pilot := env.Run(base)
	if pilot.Outcome != OutExit {
		return nil
	}
	var seedv uint64
	fmt.Sscan(c.Extra["rng"], &seedv)
	r := world.NewPRNG(seedv)
	wrote := wroteHandles(pilot.Log)
	stride := 1 + len(pilot.Log)/120 // long runs: every stride-th operation, from a random phase
	phase := r.Intn(stride)
	for k, o := range pilot.Log {
		if o.Name == "exit" || o.Name == "stderr" || (k+phase)%stride != 0 && o.Name != "stdout" {
			continue
		}
		ens := c16Errnos[opClass(o, wrote)]
		f := world.Fault{AtOp: k, Kind: "fail", Errno: ens[r.Intn(len(ens))]}
		switch o.Name {
		case "stdout":
			// the first byte, the last byte, and one in between
			for _, j := range []int{0, o.N - 1, r.Intn(o.N + 1)} {
				if j >= 0 {
					f.Bytes = j
					judge([]world.Fault{f})
				}
			}
			continue
		case "write":
			if o.N > 0 {
				f.Bytes = r.Intn(o.N + 1)
			}
			f.Sticky = r.Chance(1, 2)
		case "read", "stdin":
			if o.N > 0 {
				f.Bytes = r.Intn(o.N + 1)
			}
		}
		judge([]world.Fault{f})
		if r.Chance(1, 4) {
			judge([]world.Fault{{AtOp: k, Kind: "kill", Bytes: -1}})
		}
	}
	vs = append(vs, c06Extern(env, c, base, pilot)...)
	return vs
}

func (c06) Eval(env *Env, c *Case) []Violation {
	if c.Sub == "fault" {
		nn := 0
		for _, f := range c.Files {
			if f.Role == "nomatch" {
				nn++
			}
		}
		if nn == 0 {
			return nil
		}
		return c06Faults(env, c)
	}
	var vs []Violation
	add := func(oracle, sig, detail string) {
		vs = append(vs, Violation{Oracle: oracle, Signature: "C06/" + oracle + "/" + sig, Detail: detail})
	}
	init := c.InitialState()
	r := env.Run(c.Spec)
	if r.Outcome != OutExit {
		// crashes and hangs are property C08's business -- except that a run over
		// nothing but unmatched files is promised to succeed
		env.Probe("run-did-not-exit")
		only := len(c.Files) > 0
		for _, f := range c.Files {
			only = only && f.Role == "nomatch"
		}
		if only && r.Outcome == OutCrash && c.Extra["ill_patch"] == "" {
			return []Violation{{Oracle: "exit", Signature: "C06/exit/crashed", Detail: fmt.Sprintf("every file of the run is unmatched, and gopatch crashed instead of exiting with status 0: %s [args %v]", clip(r.Panic, 600), c.Spec.Args)}}
		}
		return nil
	}
	mode := c.Flags.String()
	hasFailing := false
	nNo, nMatch := 0, 0
	for _, f := range c.Files {
		switch f.Role {
		case "unparseable", "misfit":
			hasFailing = true
		case "nomatch":
			nNo++
		case "match":
			nMatch++
		}
	}
	if nNo == 0 {
		return nil
	}
	env.Seen(c06Key(c))
	if nMatch > 0 {
		env.Probe("unmatched-with-matching-neighbour")
	}
	if c.Flags.Print {
		env.Probe("print-only-echo")
	}
	if c.Flags.Diff {
		env.Probe("diff-mode")
	}
	if c.Flags.Verbose {
		env.Probe("verbose")
	}
	if c.Extra["fd_limit"] == "1" {
		env.Probe("many-files-under-descriptor-limit")
	}
	if c.Extra["line_names_sibling"] == "1" {
		env.Probe("line-directive-names-sibling-file")
	}
	if c.Extra["underscore_named"] == "1" {
		env.Probe("underscore-or-dot-named-file")
	}
	if c.Extra["near_miss"] == "1" {
		env.Probe("unmatched-near-miss")
	}
	if c.Extra["no_patches"] == "1" {
		env.Probe("no-patch-supplied")
	}
	if c.Extra["no_decls"] == "1" {
		env.Probe("unmatched-file-without-declarations")
	}
	apiCache := map[int]Applier{}
	stdoutPos := 0
	prevEnd := -1 // end of the echo of the previous file in path order, if that file was unmatched too
	sortedAll := c.SortedFiles()
	for fi, f := range sortedAll {
		if f.Role != "nomatch" {
			prevEnd = -1
			continue
		}
		_ = fi
		if f.Note != "canonical" {
			env.Probe("unmatched-noncanonical")
		}
		base := path.Base(f.Path)
		before := FindState(init, f.Path)
		after := FindState(r.Final, f.Path)
		// (1) no mutating operation names the file or reaches its inode
		for _, o := range r.Log {
			if !o.Mut {
				continue
			}
			if o.Path == f.Path || o.Path2 == f.Path || (before != nil && o.Ino == before.Ino) {
				add("touched", o.Name+"/"+mode, fmt.Sprintf("unmatched file %s was the target of mutating op %s (seq %d) with %s", f.Path, o.Name, o.Seq, mode))
				break
			}
		}
		// (2) identical inode state
		switch {
		case after == nil:
			add("state", "removed", fmt.Sprintf("unmatched file %s no longer exists", f.Path))
		case before.Ino != after.Ino:
			add("state", "inode-replaced", fmt.Sprintf("unmatched file %s was replaced by a new inode", f.Path))
		case !bytes.Equal(before.Data, after.Data):
			add("state", "bytes", fmt.Sprintf("unmatched file %s changed on disk: %q -> %q", f.Path, clip(string(before.Data), 200), clip(string(after.Data), 200)))
		case before.Mtime != after.Mtime:
			add("state", "mtime", fmt.Sprintf("unmatched file %s had its mtime changed", f.Path))
		case before.Perm != after.Perm:
			add("state", "mode", fmt.Sprintf("unmatched file %s had its mode changed", f.Path))
		}
		// (3) print-only echoes the original bytes, in path order
		if c.Flags.Print {
			idx := bytes.Index(r.Stdout[stdoutPos:], before.Data)
			if idx < 0 {
				if bytes.Contains(r.Stdout, before.Data) {
					add("print-echo", "order", fmt.Sprintf("--print-only echoed %s out of path order", f.Path))
				} else {
					add("print-echo", "missing", fmt.Sprintf("--print-only did not echo the original bytes of unmatched file %s (%s)", f.Path, mode))
				}
			} else {
				start := stdoutPos + idx
				if prevEnd >= 0 && !c.Flags.Verbose && start != prevEnd {
					add("print-echo", "not-verbatim", fmt.Sprintf("--print-only put %d extra byte(s) between the echoes of two unmatched files (before %s): the output is not their original bytes", start-prevEnd, f.Path))
				}
				stdoutPos += idx + len(before.Data)
				prevEnd = stdoutPos
				env.Probe("echo-adjacency-checked")
			}
			same := 0
			for _, g := range c.Files {
				if bytes.Contains(c.NodeData(g.Path), before.Data) {
					same++
				}
			}
			if len(before.Data) > 40 && bytes.Count(r.Stdout, before.Data) > same {
				env.Probe("echo-count-checked")
				add("print-echo", "twice", fmt.Sprintf("--print-only echoed unmatched file %s more than once (args %v)", f.Path, c.Spec.Args))
			}
		}
		// (4) no diff for it
		if c.Flags.Diff {
			for _, line := range strings.Split(string(r.Stdout), "\n") {
				if (strings.HasPrefix(line, "--- ") || strings.HasPrefix(line, "+++ ")) && strings.HasSuffix(line, base) {
					add("diff", "header", fmt.Sprintf("--diff printed a header for unmatched file %s: %q", f.Path, line))
					break
				}
			}
		}
		// (5) no description, nothing on stderr about it
		if bytes.Contains(r.Stderr, []byte(base)) {
			add("stderr", "mentions-file", fmt.Sprintf("stderr mentions unmatched file %s: %q", f.Path, clip(string(r.Stderr), 300)))
		}
		// (6) library API returns the input unchanged -- also when the same parsed
		// patch has just been used on other files, including ones for which it fails
		for pi, p := range c.Patches {
			if c.Extra["no_patches"] == "1" {
				break // the patches are decoys, nothing to apply
			}
			ap := apiCache[pi]
			if ap == nil {
				var pres APIResult
				ap, pres = ParseAPI(env.Prog, "p.patch", p.Data)
				if ap == nil {
					_ = pres
					continue
				}
				apiCache[pi] = ap
				for _, g := range sortedAll {
					if g.Role != "nomatch" {
						ApplyAPI(ap, path.Base(g.Path), c.NodeData(g.Path))
						env.Probe("api-earlier-call-on-shared-patch")
					}
				}
				for _, src := range c06FailingSources {
					if x := ApplyAPI(ap, "failing.go", []byte(src)); x.IsErr {
						env.Probe("api-failing-call-before-unmatched")
					}
				}
			}
			ares := ApplyAPI(ap, base, before.Data)
			env.Probe("api-apply-unmatched")
			if ares.Panic != "" || ares.NoProg {
				continue // C08
			}
			if ares.IsErr {
				add("api", "error", fmt.Sprintf("Apply on unmatched file %s returned error %q", f.Path, ares.Err))
			} else if !bytes.Equal(ares.Out, before.Data) {
				add("api", "bytes", fmt.Sprintf("Apply on unmatched file %s did not return the input bytes: %q", f.Path, clip(string(ares.Out), 200)))
			}
		}
	}
	// (6b) nothing that is not a Go file is ever touched
	for _, st := range init {
		if st.Kind != world.KFile || strings.HasSuffix(st.Path, ".go") {
			continue
		}
		g := FindState(r.Final, st.Path)
		if g == nil || !bytes.Equal(g.Data, st.Data) || g.Ino != st.Ino || g.Mtime != st.Mtime {
			add("bystander", "non-go-file", fmt.Sprintf("%s is not a Go file but was removed or modified", st.Path))
		}
	}
	// (7) the run still succeeds
	if !hasFailing && r.Exit != 0 {
		add("exit", "nonzero", fmt.Sprintf("exit status %d with no failing file in the run; stderr %q", r.Exit, clip(string(r.Stderr), 300)))
	}
	if !env.Quiet {
		env.Stats.Sample(map[string]interface{}{"args": c.Spec.Args, "files": c.Files, "exit": r.Exit, "ops": len(r.Log)}, 3)
	}
	return vs
}

// sources on which Apply fails (does not parse), used to put a failing call
// in front of the unmatched ones
var c06FailingSources = []string{
	"package broken\n\nfunc {{{\n",
	"package a\n\nfunc f() {\n\tvfOldE(1 + 2)\n}\n",
	"package a\n\nfunc f() {\n\tvfOldF(q)\n}\n",
	"package a\n\nfunc f() {\n\tvfOldE(g(1))\n\tvfOldF(2)\n}\n",
}

func c06Key(c *Case) string {
	var parts []string
	for _, p := range c.Patches {
		parts = append(parts, p.Via+":"+strings.Join(p.Triggers, ","))
	}
	for _, f := range c.Files {
		parts = append(parts, f.Role+":"+f.Note)
	}
	parts = append(parts, c.Flags.String())
	return strings.Join(parts, "|")
}

// c06Extern: another process appends to an unmatched file after the directory
// walk has seen it and before gopatch reads it. What is echoed is the file as it
// is when read, complete, and the file is still not touched. With an explicit
// plan in the case only the file named there is tried.
func c06Extern(env *Env, c *Case, base world.Spec, pilot *RunResult) []Violation {
	var vs []Violation
	// another process appends to an unmatched file after the directory walk has
	// seen it and before gopatch reads it: what is echoed is the file as it is
	// when read, complete, and the file is still not touched
	appended := []byte("\n// appended by another process while gopatch was running\nfunc appendedLater() {}\n")
	for _, f := range c.Files {
		if f.Role != "nomatch" || len(vs) > 0 {
			continue
		}
		if len(c.Spec.Faults) > 0 && c.Spec.Faults[0].Path != f.Path {
			continue
		}
		k := -1
		for i, o := range pilot.Log {
			if o.Name == "open" && o.Path == f.Path {
				k = i
				break
			}
		}
		orig := c.NodeData(f.Path)
		now := append(append([]byte(nil), orig...), appended...)
		if k < 0 || ParsesAsGo(now) != nil {
			continue
		}
		spec := base.Clone()
		spec.Faults = []world.Fault{{AtOp: k, Kind: "extern", Path: f.Path, Data: appended}}
		r := env.Run(spec)
		if len(r.Fired) == 0 || r.Outcome != OutExit {
			continue
		}
		env.Probe("file-grows-between-walk-and-read")
		fail := func(sig, detail string) {
			cc := c.Clone()
			cc.Spec.Faults = spec.Faults
			vs = append(vs, Violation{Oracle: "changed-behind-the-back", Signature: "C06/changed-behind-the-back/" + sig, Case: cc, Detail: detail + fmt.Sprintf(" [%s grew by %d bytes after the walk, before it was read; args %v]", f.Path, len(appended), c.Spec.Args)})
		}
		if after := FindState(r.Final, f.Path); after == nil || !bytes.Equal(after.Data, now) {
			fail("file-rewritten", fmt.Sprintf("unmatched file %s does not hold what the other process left in it", f.Path))
		} else if r.Exit == 0 && c.Flags.Print && !bytes.Contains(r.Stdout, now) {
			fail("echo-stale", fmt.Sprintf("--print-only exits 0 but did not echo the complete current content of unmatched file %s", f.Path))
		}
	}
	return vs
}
