package harness

import (
	"go/ast"
	"go/parser"
	"go/token"
	"strings"
	"time"

	"verif.local/sim/simrt"
	"verif.local/sim/world"
)

// Reducer lets a check supply its own case reductions.
type Reducer interface {
	Reductions(c *Case) []*Case
}

// DefaultReductions proposes smaller variants of a CLI case.
func DefaultReductions(c *Case) []*Case {
	var out []*Case
	// drop faults (but keep one: a case that has a fault plan is replayed as that
	// plan, a case without one re-enumerates all plans)
	for i := range c.Spec.Faults {
		if len(c.Spec.Faults) == 1 {
			break
		}
		d := c.Clone()
		d.Spec.Faults = append(d.Spec.Faults[:i:i], d.Spec.Faults[i+1:]...)
		out = append(out, d)
	}
	// drop files
	if len(c.Files) > 1 {
		for _, f := range c.Files {
			d := c.Clone()
			d.DropFile(f.Path)
			if len(d.Targets) == 0 {
				continue
			}
			d.RebuildArgs()
			out = append(out, d)
		}
	}
	// drop patches
	if len(c.Patches) > 1 {
		for i := range c.Patches {
			d := c.Clone()
			d.Patches = append(d.Patches[:i:i], d.Patches[i+1:]...)
			d.RebuildArgs()
			out = append(out, d)
		}
	}
	// clear flags
	fl := []func(f *Flags) bool{
		func(f *Flags) bool { b := f.Verbose; f.Verbose = false; return b },
		func(f *Flags) bool { b := f.SkipGen; f.SkipGen = false; return b },
		func(f *Flags) bool { b := f.SkipImport; f.SkipImport = false; return b },
		func(f *Flags) bool { b := f.Diff; f.Diff = false; return b },
		func(f *Flags) bool { b := f.Print; f.Print = false; return b },
	}
	for _, fn := range fl {
		d := c.Clone()
		if fn(&d.Flags) {
			d.RebuildArgs()
			out = append(out, d)
		}
	}
	// quieten knobs
	if c.Spec.Knobs.StdinChunk != 0 || c.Spec.Knobs.FileChunk != 0 || c.Spec.Knobs.ShuffleReaddir {
		d := c.Clone()
		d.Spec.Knobs = world.Knobs{Seed: c.Spec.Knobs.Seed}
		out = append(out, d)
	}
	// drop bystander nodes (decoys, stray files, symlinks) that no argument names
	named := map[string]bool{PatDir + "/list.txt": true}
	for _, f := range c.Files {
		named[f.Path] = true
	}
	for _, p := range c.Patches {
		named[p.Path] = true
	}
	var bystanders []int
	for i, n := range c.Spec.Nodes {
		if n.Kind != "dir" && !named[n.Path] {
			bystanders = append(bystanders, i)
		}
	}
	if len(bystanders) > 0 && len(c.Files) > 0 {
		d := c.Clone()
		var keep []world.NodeSpec
		for _, n := range c.Spec.Nodes {
			if n.Kind == "dir" || named[n.Path] {
				keep = append(keep, n)
			}
		}
		d.Spec.Nodes = keep
		out = append(out, d)
		if len(bystanders) > 1 {
			for _, i := range bystanders {
				d := c.Clone()
				d.Spec.Nodes = append(d.Spec.Nodes[:i:i], d.Spec.Nodes[i+1:]...)
				out = append(out, d)
			}
		}
	}
	// library histories and schedules: drop calls, drop context switches
	if len(c.Calls) > 1 {
		for i := range c.Calls {
			d := c.Clone()
			d.Calls = append(d.Calls[:i:i], d.Calls[i+1:]...)
			out = append(out, d)
		}
	}
	if c.Sched != nil && len(c.Sched.Switches) > 1 {
		// delta debugging over the switch list: remove chunks (halves, quarters, ...)
		// and, for short lists, single switches; the number of candidates per round
		// stays small because every candidate is a full clone of the case
		sw := c.Sched.Switches
		shallow := *c
		shallow.Sched = &Sched{Policy: c.Sched.Policy, Seed: c.Sched.Seed, Param: c.Sched.Param}
		without := func(a, b int) *Case {
			d := shallow.Clone()
			d.Sched.Switches = append(append([]simrt.Switch(nil), sw[:a]...), sw[b:]...)
			return d
		}
		n := len(sw)
		for parts := 2; parts <= 8 && parts <= n; parts *= 2 {
			for k := 0; k < parts; k++ {
				out = append(out, without(k*n/parts, (k+1)*n/parts))
			}
		}
		if n <= 24 {
			for i := 0; i < n; i++ {
				out = append(out, without(i, i+1))
			}
		}
	}
	// smaller Go files: remove one top-level declaration at a time (the file must
	// still parse, so that the case stays inside the generated space)
	for _, f := range c.Files {
		src := c.NodeData(f.Path)
		for _, smaller := range dropDecls(src, 8) {
			d := c.Clone()
			for i := range d.Spec.Nodes {
				if d.Spec.Nodes[i].Path == f.Path {
					d.Spec.Nodes[i].Data = smaller
				}
			}
			out = append(out, d)
		}
	}
	for i, call := range c.Calls {
		if call.Parse {
			continue
		}
		for _, smaller := range dropDecls(call.Src, 4) {
			d := c.Clone()
			d.Calls[i].Src = smaller
			out = append(out, d)
		}
	}
	// smaller byte offsets of faults
	for i, f := range c.Spec.Faults {
		if f.Bytes > 0 {
			for _, nb := range []int{0, f.Bytes / 2, f.Bytes - 1} {
				if nb != f.Bytes {
					d := c.Clone()
					d.Spec.Faults[i].Bytes = nb
					out = append(out, d)
				}
			}
		}
	}
	return out
}

// Minimise shrinks a failing case while the same violation class persists.
func Minimise(env *Env, chk Check, c *Case, v Violation) *Replay {
	quiet := &Env{Prog: env.Prog, Stats: NewStats(), Tier: env.Tier, Quiet: true}
	deadline := time.Now().Add(20 * time.Second)
	cur := c
	curV := v
	saved := caseHash
	defer func() { caseHash = saved }()
	reductions := DefaultReductions
	if rd, ok := chk.(Reducer); ok {
		reductions = rd.Reductions
	}
	changed := true
	minimised := false
	for changed && time.Now().Before(deadline) {
		changed = false
		for _, cand := range reductions(cur) {
			if time.Now().After(deadline) {
				break
			}
			apiSeq = 0
			vs := chk.Eval(quiet, cand)
			for _, w := range vs {
				if w.Signature == v.Signature {
					cur = cand
					curV = w
					changed = true
					minimised = true
					break
				}
			}
			if changed {
				break
			}
		}
	}
	curV.Prop = v.Prop
	return &Replay{Violation: curV, Case: cur, Minimised: minimised}
}

// dropDecls returns variants of a Go source with one top-level declaration
// (other than imports) removed; at most max variants, none if the source does
// not parse or has fewer than two such declarations.
func dropDecls(src []byte, max int) [][]byte {
	if len(src) == 0 || strings.Contains(string(src), "\r") {
		return nil
	}
	fset := token.NewFileSet()
	f, err := parser.ParseFile(fset, "x.go", src, parser.ParseComments)
	if err != nil {
		return nil
	}
	var cands []ast.Decl
	for _, d := range f.Decls {
		if gd, ok := d.(*ast.GenDecl); ok && gd.Tok == token.IMPORT {
			continue
		}
		cands = append(cands, d)
	}
	if len(cands) < 2 {
		return nil
	}
	var out [][]byte
	for _, d := range cands {
		start := d.Pos()
		switch x := d.(type) {
		case *ast.FuncDecl:
			if x.Doc != nil {
				start = x.Doc.Pos()
			}
		case *ast.GenDecl:
			if x.Doc != nil {
				start = x.Doc.Pos()
			}
		}
		a, b := fset.Position(start).Offset, fset.Position(d.End()).Offset
		if a < 0 || b > len(src) || a >= b {
			continue
		}
		for b < len(src) && src[b] == '\n' {
			b++
		}
		smaller := append(append([]byte(nil), src[:a]...), src[b:]...)
		if ParsesAsGo(smaller) == nil {
			out = append(out, smaller)
		}
		if len(out) >= max {
			break
		}
	}
	return out
}
