package harness

import (
	"encoding/json"
	"fmt"
	"os"
	"sort"
	"time"
	simrand "verif.local/sim/simrand"
	simrandv2 "verif.local/sim/simrandv2"
	simtime "verif.local/sim/simtime"

	"verif.local/sim/simrt"
	"verif.local/sim/world"
)

// FileMeta is what the generator knows, by construction, about one target file.
type FileMeta struct {
	Path string `json:"path"` // absolute
	// Role: match | nomatch | unparseable | generated | misfit | other
	Role    string   `json:"role"`
	Markers []string `json:"markers,omitempty"` // description markers of changes that match this file
	Note    string   `json:"note,omitempty"`
}

// PatchMeta describes one supplied patch file.
type PatchMeta struct {
	Path     string      `json:"path"` // absolute, or "stdin"
	Via      string      `json:"via"`  // p | P | stdin
	Data     world.Bytes `json:"data"`
	Markers  []string    `json:"markers,omitempty"`  // description markers it carries
	Triggers []string    `json:"triggers,omitempty"` // identifiers every match of it requires
}

// Flags of a gopatch invocation.
type Flags struct {
	Diff       bool `json:"diff,omitempty"`
	Print      bool `json:"print,omitempty"`
	SkipImport bool `json:"skip_import,omitempty"`
	SkipGen    bool `json:"skip_generated,omitempty"`
	Verbose    bool `json:"verbose,omitempty"`
}

func (f Flags) Args() []string {
	var a []string
	if f.Diff {
		a = append(a, "--diff")
	}
	if f.Print {
		a = append(a, "--print-only")
	}
	if f.SkipImport {
		a = append(a, "--skip-import-processing")
	}
	if f.SkipGen {
		a = append(a, "--skip-generated")
	}
	if f.Verbose {
		a = append(a, "-v")
	}
	return a
}

func (f Flags) String() string {
	s := ""
	for _, a := range f.Args() {
		s += a + " "
	}
	if s == "" {
		return "(in-place)"
	}
	return s[:len(s)-1]
}

// Sched is an explicit schedule for the concurrent-Apply harness.
type Sched struct {
	Policy   string         `json:"policy"`
	Seed     uint64         `json:"seed,omitempty"`
	Param    int            `json:"param,omitempty"`
	Switches []simrt.Switch `json:"switches,omitempty"` // explicit replay schedule
}

// APICall is one library call of a history.
type APICall struct {
	Task     int         `json:"task"`
	Filename string      `json:"filename"`
	Src      world.Bytes `json:"src"`
	Parse    bool        `json:"parse,omitempty"` // call patch.Parse(Src) instead of Apply
}

// Case is the explicit, replayable description of one simulated case.
type Case struct {
	Prop string `json:"property"`
	Sub  string `json:"sub"`
	Idx  int    `json:"idx"`
	Seed uint64 `json:"seed"`

	Spec    world.Spec  `json:"world"`
	Flags   Flags       `json:"flags"`
	Files   []FileMeta  `json:"files,omitempty"`
	Patches []PatchMeta `json:"patches,omitempty"`
	Targets []string    `json:"targets,omitempty"` // positional arguments

	// library-API histories (C14)
	APIPatch world.Bytes `json:"api_patch,omitempty"`
	Calls    []APICall   `json:"calls,omitempty"`
	Sched    *Sched      `json:"sched,omitempty"`

	Extra map[string]string `json:"extra,omitempty"`
}

func (c *Case) Clone() *Case {
	b, _ := json.Marshal(c)
	var d Case
	_ = json.Unmarshal(b, &d)
	return &d
}

// Violation is one oracle failure.
type Violation struct {
	Prop      string `json:"property"`
	Oracle    string `json:"oracle"`
	Signature string `json:"signature"`
	Detail    string `json:"detail"`
	// Case, if set, is the specific variant (fault plan, schedule) of the
	// evaluated case that failed; it is what goes into the replay file.
	Case *Case `json:"-"`
}

// Replay is what a replay file contains.
type Replay struct {
	Violation Violation `json:"violation"`
	Case      *Case     `json:"case"`
	Minimised bool      `json:"minimised"`
	Note      string    `json:"note,omitempty"`
}

// Stats accumulates evidence counters inside a worker.
type Stats struct {
	ClockReads   int64             `json:"clock_reads"` // how often gopatch read the simulated clock
	RandDraws    int64             `json:"rand_draws"`  // how often it drew from the package-level random generators
	Evaluations  int               `json:"evaluations"`
	Runs         int               `json:"runs"` // simulated executions (a case may need several)
	Steps        uint64            `json:"steps"`
	Ops          uint64            `json:"ops"`
	Faults       map[string]int    `json:"faults_fired"`
	Probes       map[string]int    `json:"probes"`
	Distinct     map[string]bool   `json:"-"`
	DistinctN    int               `json:"distinct"`
	Samples      []json.RawMessage `json:"samples"`
	Known        map[string]int    `json:"known"`
	SitesHit     int               `json:"sites_hit"`
	Cov          []uint64          `json:"cov,omitempty"`
	DistinctKeys []string          `json:"distinct_keys,omitempty"`
}

func NewStats() *Stats {
	return &Stats{Faults: map[string]int{}, Probes: map[string]int{}, Distinct: map[string]bool{}, Known: map[string]int{}}
}

func (s *Stats) Probe(name string)         { s.Probes[name]++ }
func (s *Stats) ProbeN(name string, n int) { s.Probes[name] += n }
func (s *Stats) Seen(key string)           { s.Distinct[key] = true }

// NoteRun folds one simulated run into the counters.
func (s *Stats) NoteRun(r *RunResult) {
	s.Runs++
	s.Steps += r.Steps
	s.Ops += uint64(len(r.Log))
	for _, f := range r.Fired {
		s.Faults[f.Fault+":"+f.Name]++
	}
}

func (s *Stats) Sample(v interface{}, max int) {
	if len(s.Samples) >= max {
		return
	}
	b, err := json.Marshal(v)
	if err == nil {
		s.Samples = append(s.Samples, b)
	}
}

func (s *Stats) Finish() {
	s.DistinctN = len(s.Distinct)
	s.DistinctKeys = make([]string, 0, len(s.Distinct))
	for k := range s.Distinct {
		s.DistinctKeys = append(s.DistinctKeys, k)
	}
	sort.Strings(s.DistinctKeys)
	s.SitesHit = simrt.CoverageCount()
	s.Cov = simrt.CoverageWords()
	s.ClockReads = simtime.Reads()
	s.RandDraws = simrand.Draws() + simrandv2.Draws()
}

// Env is what a check gets to work with.
type Env struct {
	Prog  *Program
	Stats *Stats
	Tier  string
	// Quiet disables sampling/probing (used by the minimiser)
	Quiet bool
	// Deadline (unix seconds, 0 = none) of the batch: enumerations inside one
	// case stop early once it has passed (the case then counts as partly explored).
	Deadline int64
}

// Expired reports whether the batch deadline has passed.
func (e *Env) Expired() bool {
	return e.Deadline > 0 && time.Now().Unix() > e.Deadline
}

// WithBudget runs f with a case-specific step budget.
func WithBudget(b uint64, f func()) {
	old := DefaultBudget
	DefaultBudget = b
	defer func() { DefaultBudget = old }()
	f()
}

// Run is RunCLI plus bookkeeping.
// beat tells the coordinator that the worker is alive inside a long case (a
// case of the enumerating families is hundreds or thousands of runs).
var beatCount int

func beat() {
	beatCount++
	if beatCount%256 == 0 && out != nil {
		send(Msg{T: "beat"})
	}
}

func (e *Env) Run(spec world.Spec) *RunResult {
	beat()
	if os.Getenv("VERIF_DUMP") != "" {
		fb, _ := json.Marshal(spec.Faults)
		fmt.Fprintf(os.Stderr, "START args=%v faults=%s\n", spec.Args, fb)
	}
	r := RunCLI(e.Prog, spec)
	if os.Getenv("VERIF_DUMP") != "" {
		fmt.Fprintf(os.Stderr, "RUN args=%v outcome=%s exit=%d\n stdout=%q\n stderr=%q\n", spec.Args, r.Outcome, r.Exit, clip(string(r.Stdout), 600), clip(string(r.Stderr), 600))
		for _, o := range r.Log {
			fmt.Fprintf(os.Stderr, "   op %d %s %s %s n=%d err=%s fault=%s\n", o.Seq, o.Name, o.Path, o.Path2, o.N, o.Err, o.Fault)
		}
	}
	if !e.Quiet {
		e.Stats.NoteRun(r)
		HashRun(r)
	}
	return r
}

func (e *Env) RunHook(spec world.Spec, hook func(w *world.World, op *world.Op)) *RunResult {
	beat()
	r := RunCLIHook(e.Prog, spec, hook)
	if !e.Quiet {
		e.Stats.NoteRun(r)
		HashRun(r)
	}
	return r
}

func (e *Env) Probe(name string) {
	if !e.Quiet {
		e.Stats.Probe(name)
	}
}
func (e *Env) Seen(key string) {
	if !e.Quiet {
		e.Stats.Seen(key)
	}
}

// Check is one property's harness.
type Check interface {
	ID() string
	// NumCases is the number of cases of a tier.
	NumCases(tier string) int
	// Gen deterministically produces case i (nil = no case at this index).
	Gen(env *Env, seed uint64, tier string, i int) *Case
	// Eval runs the case and returns the oracle failures.
	Eval(env *Env, c *Case) []Violation
	// Describe returns static evidence text.
	Describe() CheckInfo
}

// CheckInfo is static information for the evidence file.
type CheckInfo struct {
	Level          string   `json:"level"`
	Rule           string   `json:"rule"`
	Assumptions    []string `json:"assumptions"`
	RealCode       []string `json:"real_components"`
	Stubs          []string `json:"stub_components"`
	RequiredProbes []string `json:"required_probes"`
}

var registry = map[string]Check{}

func Register(c Check)       { registry[c.ID()] = c }
func Lookup(id string) Check { return registry[id] }
func AllIDs() []string {
	var ids []string
	for k := range registry {
		ids = append(ids, k)
	}
	sort.Strings(ids)
	return ids
}
