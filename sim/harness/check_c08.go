package harness

import (
	"bytes"
	"fmt"
	"path"
	"runtime"
	"runtime/debug"
	"sort"
	"strings"

	"verif.local/sim/world"
)

// C08 — No input makes gopatch crash or hang (claimed as storage/stream faults
// on the two input channels: truncation at an arbitrary byte, flipped stored
// bytes, read errors mid-stream, short reads).
type c08 struct{}

func init() { Register(c08{}) }

func (c08) ID() string { return "C08" }

type c08Patch struct {
	Name   string
	Data   []byte
	Inputs []CorpusFile
}

var c08Alphabet = []byte("@#+-(){}[].,;:\"'\n \t0x=*&!<|/`_")

var c08Cache struct {
	patches []c08Patch
	inputs  []CorpusFile // all corpus inputs
	offs    [4][]int     // cumulative sizes per family
}

// illTyped is the small fixed family of well-formed but ill-typed patches.
var c08IllTyped = []struct{ name, patch, stmt string }{
	{"expr-metavar-as-decl-name", "@@\nvar x expression\n@@\n-foo(x)\n+bar(func() { var x int })\n", "foo(1 + 2)"},
	{"expr-metavar-as-field-name", "@@\nvar x expression\n@@\n-foo(x)\n+bar(struct{ x int }{})\n", "foo(a.b)"},
	{"expr-metavar-as-label", "@@\nvar x expression\n@@\n-foo(x)\n+x: bar()\n", "foo(1)"},
	{"expr-metavar-as-param", "@@\nvar x expression\n@@\n-foo(x)\n+bar(func(x int) {})\n", "foo(f())"},
	{"expr-metavar-as-selector", "@@\nvar x expression\n@@\n-foo(x)\n+bar(a.x)\n", "foo(1 + 2)"},
	{"expr-metavar-as-assign-lhs", "@@\nvar x expression\n@@\n-foo(x)\n+x := 1\n", "foo(g(2))"},
	{"expr-metavar-as-type", "@@\nvar x expression\n@@\n-foo(x)\n+var y x\n", "foo(\"s\")"},
	{"expr-metavar-as-range-key", "@@\nvar x expression\n@@\n-foo(x)\n+for x = range y {\n+}\n", "foo(1 * 2)"},
	{"ident-metavar-as-package", "@@\nvar x identifier\n@@\n-foo(x)\n+x.bar()\n", "foo(q)"},
	{"expr-metavar-as-method-name", "@@\nvar x expression\n@@\n-foo(x)\n+y.x()\n", "foo(3)"},
	{"expr-metavar-as-import-name", "@@\nvar x expression\n@@\n-foo(x)\n+goto x\n", "foo(4)"},
	{"expr-metavar-as-func-name", "@@\nvar x expression\n@@\n-foo(x)\n+bar(func() { type x int })\n", "foo(1 + 2)"},
	{"expr-metavar-as-kv-key", "@@\nvar x expression\n@@\n-foo(x)\n+bar(T{x: 1})\n", "foo(1 + 2)"},
	{"expr-metavar-as-const-name", "@@\nvar x expression\n@@\n-foo(x)\n+const x = 1\n", "foo(1 + 2)"},
	{"dots-only-plus", "@@\n@@\n-foo(1)\n+bar(...)\n", "foo(1)"},
	{"dots-mismatch", "@@\n@@\n-foo(..., 1, ...)\n+bar(...)\n", "foo(2, 1, 3)"},
	{"stmt-dots-plus-only", "@@\n@@\n-foo()\n+{\n+  ...\n+}\n", "foo()"},
	{"two-metavars-same-name", "@@\nvar x expression\nvar x identifier\n@@\n-foo(x)\n+bar(x)\n", "foo(1)"},
	{"undeclared-kind", "@@\nvar x thing\n@@\n-foo(x)\n+bar(x)\n", "foo(1)"},
	{"change-name-starting-with-digit", "@@ 9lives @@\n@@\n-foo(1)\n+bar(1)\n", "foo(1)"},
	{"change-name-with-space", "@@ two words @@\n@@\n-foo(1)\n+bar(1)\n", "foo(1)"},
	{"change-name-with-symbols", "@@ a-b.c! @@\n@@\n-foo(1)\n+bar(1)\n", "foo(1)"},
	{"change-name-unterminated", "@@ name\n@@\n-foo(1)\n+bar(1)\n", "foo(1)"},
	{"change-name-empty-quotes", "@@ \"\" @@\n@@\n-foo(1)\n+bar(1)\n", "foo(1)"},
	{"change-name-unicode", "@@ имя_变更 @@\n@@\n-foo(1)\n+bar(1)\n", "foo(1)"},
	{"three-at-signs", "@@@\n@@\n-foo(1)\n+bar(1)\n", "foo(1)"},
	{"meta-var-without-type", "@@\nvar x\n@@\n-foo(x)\n+bar(x)\n", "foo(1)"},
	{"meta-var-trailing-comma", "@@\nvar x, expression\n@@\n-foo(x)\n+bar(x)\n", "foo(1)"},
	{"meta-not-var", "@@\nconst x expression\n@@\n-foo(x)\n+bar(x)\n", "foo(1)"},
	// a whole file instead of a statement (prefix "FILE:"): the import sorter of
	// golang.org/x/tools loops for ever on it (finding F28); kept out of the
	// families that enumerate every prefix and substitution of their inputs
	{"line-directive-beyond-eof-commented-import", "@@\nvar T identifier\n@@\n-func vfOld3(x T) {\n+func vfNew3(x T) {\n   ...\n }\n", "FILE://line /gen/src/other.go:100\npackage sample\n\nimport (\n\t\"vf/b2\" // bee\n\t\"example.com/alpha\"\n)\n\nfunc parse0(k func() error) error {\n\tfor a := 0; idx < 10; res++ {\n\t}\n}\n\nfunc (n *Node) render2(w func() error) error {\n}\n\nfunc vfOld3(x string) {\n}\n"},
	{"only-header", "@@\n@@\n", "foo(1)"},
	{"header-then-eof", "@@\n", "foo(1)"},
	{"context-only", "@@\n@@\n foo(1)\n", "foo(1)"},
	{"minus-only-lines-with-tabs", "@@\n@@\n-\tfoo(1)\n+\tbar(1)\n", "foo(1)"},
	{"crlf-patch", "@@\r\nvar x expression\r\n@@\r\n-foo(x)\r\n+bar(x)\r\n", "foo(1)"},
	{"bom-patch", "\xef\xbb\xbf@@\n@@\n-foo(1)\n+bar(1)\n", "foo(1)"},
	{"empty-minus", "@@\n@@\n+bar()\n", "foo(1)"},
	{"empty-plus", "@@\n@@\n-foo(1)\n", "foo(1)"},
	{"func-header-only", "@@\n@@\n-func f(\n", "foo(1)"},
	{"recv-header-only", "@@\n@@\n-func (r\n", "foo(1)"},
	{"nested-dots-in-func-lit", "@@\n@@\n-foo(func(...) { ... })\n+bar(func(...) { ... })\n", "foo(func(a int) { g() })"},
	{"type-decl-dots", "@@\nvar T identifier\n@@\n-type T struct { ... }\n+type T struct { ...; extra int }\n", "foo(1)"},
	// an earlier change of the same patch succeeds, a later one matches the same file but does not fit
	{"good-then-ill", "@@\n@@\n-foo\n+foo2\n\n@@\nvar f expression\n@@\n-f(1)\n+f.f(1)\n", "foo(1)\n\tc.conn.Close(1)"},
	{"ill-then-good", "@@\nvar f expression\n@@\n-f(1)\n+f.f(1)\n\n@@\n@@\n-foo\n+foo2\n", "foo(1)\n\tc.conn.Close(1)"},
	// brace blocks that end up empty on one side
	{"empty-block-minus", "@@\n@@\n {\n+bar()\n }\n", "foo(1)"},
	{"empty-block-plus", "@@\n@@\n {\n-foo(1)\n }\n", "foo(1)"},
	{"empty-block-both", "@@\n@@\n {\n }\n", "foo(1)"},
	{"empty-block-comment", "@@\n@@\n-{ /* c */ }\n+{ bar() }\n", "foo(1)"},
	// an identifier metavariable bound to an absent (nil) node and reused elsewhere
	{"nil-label-metavar", "@@\nvar x identifier\n@@\n-continue x\n+foo(x)\n+continue x\n", "for range s {\n\t\tcontinue\n\t}"},
	{"nil-label-expr-metavar-return", "@@\nvar x expression\n@@\n-continue x\n+return x\n", "for range s {\n\t\tcontinue\n\t}"},
	{"nil-label-expr-metavar-call", "@@\nvar x expression\n@@\n-break x\n+foo(x)\n", "for range s {\n\t\tbreak\n\t}"},
	{"nil-label-expr-metavar-list", "@@\nvar x expression\n@@\n-continue x\n+foo(1, x, 2)\n+_ = []int{x}\n", "for range s {\n\t\tif a {\n\t\t\tcontinue\n\t\t}\n\t}"},
	{"nil-else-metavar", "@@\nvar x expression\n@@\n-return x\n+foo(x)\n", "return"},
	{"nil-init-metavar", "@@\nvar x, y expression\n@@\n-x[y]\n+foo(y, x)\n", "_ = a[:]\n\t_ = m[k]"},
	{"nil-label-break", "@@\nvar x identifier\n@@\n-break x\n+bar(x)\n", "for {\n\t\tbreak\n\t}"},
	{"nil-else-metavar", "@@\nvar x expression\n@@\n-return x\n+return wrap(x)\n", "return"},
	// a target with //line directives: positions reported by the file set are not physical lines
	{"line-directive-target", "@@\n@@\n-foo(...)\n+bar()\n", "//line other.go:100\n\tfoo(1,\n\t\t2,\n\t\t3)"},
	// two changes match one file; the first removes code that contains a comment group
	{"two-changes-comment-only-funclit", "@@\n@@\n setup()\n-trace(...)\n run()\n\n@@\n@@\n-oldName()\n+newName()\n", "setup()\n\ttrace(func() {\n\t\t// only while debugging\n\t})\n\trun()\n\toldName()"},
	{"two-changes-comment-and-stmt", "@@\n@@\n setup()\n-trace(...)\n run()\n\n@@\n@@\n-oldName()\n+newName()\n", "setup()\n\ttrace(func() {\n\t\t// note\n\t\tdump()\n\t})\n\trun()\n\toldName()"},
	{"two-changes-trailing-comment", "@@\nvar x expression\n@@\n-drop(x)\n\n@@\n@@\n-oldName()\n+newName()\n", "drop(1) // trailing\n\t// own line\n\toldName() /* inline */"},
	{"two-changes-block-comments", "@@\n@@\n-if debug {\n-  ...\n-}\n\n@@\n@@\n-oldName\n+newName\n", "if debug {\n\t\t// a\n\t\tlog() // b\n\t\t/* c */\n\t}\n\toldName()"},
	// many elisions in one list against a long, almost matching list
	{"many-dots-long-list", "@@\n@@\n-f(..., 1, ..., 1, ..., 1, ..., 1, ..., 1, ..., 1, ..., 1, ..., 1, ..., 1, ..., 1, ..., 1, ..., 1, 2)\n+g()\n", "f(1, 1, 1, 1, 1, 1, 1, 1, 1, 1, 1, 1, 1, 1, 1, 1, 1, 1, 1, 1, 1, 1, 1, 1, 1, 1, 1, 1, 1, 1, 1, 1, 1, 1, 1, 1, 1, 1, 1, 1)"},
	{"many-dots-stmts", "@@\n@@\n {\n   ...\n-  a()\n   ...\n-  a()\n   ...\n-  a()\n   ...\n-  a()\n   ...\n-  a()\n   ...\n-  a()\n   ...\n-  a()\n   ...\n-  a()\n   ...\n   b()\n }\n", "a()\n\ta()\n\ta()\n\ta()\n\ta()\n\ta()\n\ta()\n\ta()\n\ta()\n\ta()\n\ta()\n\ta()\n\ta()\n\ta()\n\ta()\n\ta()\n\ta()\n\ta()\n\ta()\n\ta()\n\ta()\n\ta()\n\ta()\n\ta()\n\ta()\n\ta()\n\ta()\n\ta()\n\ta()\n\ta()"},
	{"line-directive-before-func", "@@\n@@\n-foo(...)\n+bar()\n", "foo(1,\n\t\t2)\n}\n\n//line gen.y:7\nfunc g() {\n\tfoo(3,\n\t\t4)"},
}

// a zoo of well-formed patches over syntax the corpus does not contain; every
// prefix and byte substitution of each is enumerated like the corpus patches
var c08Zoo = []struct{ name, patch, src string }{
	{"generic-funcdecl", "@@\nvar T, U identifier\n@@\n-func vfMap[T, U any](xs []T, f func(T) U) []U {\n+func vfMapTo[T, U any](xs []T, f func(T) U) []U {\n   ...\n }\n", "package a\n\nfunc vfMap[T, U any](xs []T, f func(T) U) []U {\n\treturn nil\n}\n"},
	{"generic-call", "@@\nvar x expression\n@@\n-vfConv[int, string](x)\n+vfConv2[int](x)\n", "package a\n\nfunc f() {\n\t_ = vfConv[int, string](1)\n}\n"},
	{"method-with-receiver", "@@\nvar r, T identifier\n@@\n-func (r *T) VfOld(ctx context.Context) error {\n+func (r *T) VfNew(ctx context.Context) error {\n   ...\n }\n", "package a\n\nimport \"context\"\n\nfunc (s *Srv) VfOld(ctx context.Context) error {\n\treturn nil\n}\n"},
	{"struct-type", "@@\nvar T identifier\n@@\n type T struct {\n   ...\n-  vfOld int\n+  vfNew int64\n   ...\n }\n", "package a\n\ntype S struct {\n\ta string\n\tvfOld int\n\tb bool\n}\n"},
	{"interface-type", "@@\n@@\n-type VfI interface{ Old() }\n+type VfI interface{ New() }\n", "package a\n\ntype VfI interface{ Old() }\n"},
	{"brace-block", "@@\nvar x expression\n@@\n {\n-  vfLock(x)\n+  vfGuard(x)\n   ...\n-  vfUnlock(x)\n }\n", "package a\n\nfunc f() {\n\tvfLock(mu)\n\twork()\n\tvfUnlock(mu)\n}\n"},
	{"switch-select", "@@\nvar x identifier\n@@\n switch x {\n-case vfOld:\n+case vfNew:\n   ...\n }\n", "package a\n\nfunc f(k int) {\n\tswitch k {\n\tcase vfOld:\n\t\tg()\n\t}\n}\n"},
	{"labels-goto", "@@\nvar L identifier\n@@\n-goto L\n+continue L\n", "package a\n\nfunc f() {\nouter:\n\tfor {\n\t\tgoto outer\n\t}\n}\n"},
	{"composite-lit", "@@\nvar v expression\n@@\n-VfCfg{Old: v}\n+VfCfg{New: v, Extra: []string{\"a\", `b`}}\n", "package a\n\nvar c = VfCfg{Old: 1}\n"},
	{"func-literal-defer", "@@\n@@\n-defer func() { vfOld() }()\n+defer vfNew()\n", "package a\n\nfunc f() {\n\tdefer func() { vfOld() }()\n}\n"},
	{"chan-ops", "@@\nvar c, v expression\n@@\n-c <- vfWrap(v)\n+c <- v\n", "package a\n\nfunc f(ch chan<- int) {\n\tch <- vfWrap(1)\n}\n"},
	{"import-named", "@@\n@@\n-import vfold \"vf/old/pkg\"\n+import vfnew \"vf/new/pkg\"\n\n-vfold.Do()\n+vfnew.Do()\n", "package a\n\nimport vfold \"vf/old/pkg\"\n\nfunc f() {\n\tvfold.Do()\n}\n"},
	{"value-decl", "@@\nvar n identifier\n@@\n-var n = vfOld()\n+var n = vfNew()\n", "package a\n\nvar x = vfOld()\n"},
	{"multi-change-comments", "# first\n@@\n# meta comment\nvar x expression\n@@\n# body comment\n-vfA(x)\n+vfB(x)\n\n# second\n# more\n@@\n@@\n-vfC\n+vfD\n", "package a\n\nfunc f() {\n\tvfA(vfC)\n}\n"},
	{"line-directive-in-import-group", "@@\n@@\n-import \"errors\"\n\n-errors.New(\"x\")\n+nil\n", "package a\n\nimport (\n\t\"errors\"\n//line foo.go:1000\n\n\t// doc\n\t\"fmt\"\n)\n\nfunc f() error {\n\tfmt.Println(\"hi\")\n\treturn errors.New(\"x\")\n}\n"},
	{"line-directive-before-trailing-import-comment", "@@\n@@\n-import \"errors\"\n\n-errors.New(\"x\")\n+nil\n", "package a\n\nimport (\n\t\"errors\"\n/*line bar.go:77*/\n\t\"fmt\" // used below\n)\n\nfunc f() error {\n\tfmt.Println(\"hi\")\n\treturn errors.New(\"x\")\n}\n"},
	{"line-directive-add-import", "@@\n@@\n+import \"os\"\n\n-vfExit()\n+os.Exit(1)\n", "package a\n\n//line gen.y:40\nimport (\n\t\"fmt\"\n)\n\n//line gen.y:90\nfunc f() {\n\tfmt.Println()\n\tvfExit()\n}\n"},
	{"add-import-and-change-last-decl-split-imports", "@@\n@@\n+import \"context\"\n\n-func last() {\n+func last(ctx context.Context) {\n   ...\n }\n", "package a\n\nimport \"fmt\"\nimport \"os\"\n\nfunc first() { fmt.Println(os.Args) }\n\nfunc last() {\n\tfmt.Println()\n}\n"},
	{"add-import-and-change-decl-no-imports", "@@\n@@\n+import \"context\"\n\n-func last() {\n+func last(ctx context.Context) {\n   ...\n }\n", "package a\n\nfunc first() {}\n\nfunc last() {\n\tprintln()\n}\n"},
	{"context-line-without-leading-blank", "@@\n@@\n... := foo()\n+bar()\n", "package a\n\nfunc b() {\n\tx := foo()\n}\n"},
	{"dots-in-column-one-both-sides", "@@\n@@\n... := foo(...)\n+..., err := foo(...)\n", "package a\n\nfunc b() {\n\tx := foo()\n}\n"},
	{"import-path-is-a-version", "@@\n@@\n+import \"v2\"\n\n-vfUse()\n+v2.Use()\n", "package a\n\nfunc f() {\n\tvfUse()\n}\n"},
	{"import-path-ends-in-version", "@@\n@@\n-import \"example.com/foo/v2\"\n+import \"example.com/foo/v3\"\n\n-foo.Do()\n+foo.Do(1)\n", "package a\n\nimport \"example.com/foo/v2\"\n\nfunc f() {\n\tfoo.Do()\n}\n"},
	{"import-path-gopkg-in", "@@\n@@\n-import \"gopkg.in/yaml.v2\"\n+import \"gopkg.in/yaml.v3\"\n\n yaml.Marshal(nil)\n", "package a\n\nimport \"gopkg.in/yaml.v2\"\n\nfunc f() {\n\tyaml.Marshal(nil)\n}\n"},
	{"import-path-single-letter-and-dots", "@@\n@@\n-import \"v3\"\n\n-v3.X\n+1\n", "package a\n\nimport \"v3\"\n\nvar _ = v3.X\n"},
	{"import-path-odd", "@@\n@@\n+import \"a/b/\"\n\n-vfUse()\n+b.Use()\n", "package a\n\nfunc f() {\n\tvfUse()\n}\n"},
	{"named-change", "@@ first @@\nvar x expression\n@@\n-vfA(x)\n+vfB(x)\n", "package a\n\nfunc f() {\n\tvfA(1)\n}\n"},
}

func c08Load() {
	if c08Cache.patches != nil {
		return
	}
	var ps []c08Patch
	for _, cc := range Corpus() {
		for _, p := range cc.Patches {
			ps = append(ps, c08Patch{Name: cc.Name + "/" + p.Name, Data: p.Data, Inputs: cc.Inputs})
		}
		c08Cache.inputs = append(c08Cache.inputs, cc.Inputs...)
	}
	for _, p := range ExtraPatches() {
		ps = append(ps, c08Patch{Name: "extra/" + p.Name, Data: p.Data})
	}
	for k, t := range Templates {
		r := world.NewPRNG(uint64(k))
		ch := Change{T: t, K: 1, Marker: "desc " + t.Name}
		in := CorpusFile{Name: "t.go", Data: MatchingFile(r, []Change{ch}, "canonical", "")}
		// and a file that mentions the trigger without containing an instance
		near := CorpusFile{Name: "near-" + t.Name + ".go", Data: NearMissFile(r, []Change{ch}, "canonical", "")}
		ps = append(ps, c08Patch{Name: "template/" + t.Name, Data: []byte(ch.Text()), Inputs: []CorpusFile{in, near}})
		c08Cache.inputs = append(c08Cache.inputs, near)
	}
	for _, m := range Misfits {
		in := CorpusFile{Name: "t.go", Data: []byte("package sample\n\nfunc f() {\n\t" + m.Stmt(1) + "\n}\n")}
		ps = append(ps, c08Patch{Name: "misfit/" + m.Name, Data: []byte(m.Patch(1)), Inputs: []CorpusFile{in}})
	}
	for _, z := range c08Zoo {
		in := CorpusFile{Name: "z.go", Data: []byte(z.src)}
		ps = append(ps, c08Patch{Name: "zoo/" + z.name, Data: []byte(z.patch), Inputs: []CorpusFile{in}})
		c08Cache.inputs = append(c08Cache.inputs, in)
	}
	sort.SliceStable(ps, func(i, j int) bool { return ps[i].Name < ps[j].Name })
	c08Cache.patches = ps
}

// family sizes
func c08OpFaultWorlds(tier string) int {
	if tier == "thorough" {
		return 60_000
	}
	return 500
}

func c08Sizes(tier string) (truncP, truncT, flipP, flipT, cross, rderr, ill int) {
	c08Load()
	for _, p := range c08Cache.patches {
		truncP += len(p.Data) + 1
	}
	for _, in := range c08Cache.inputs {
		truncT += len(in.Data) + 1
	}
	cross = len(c08Cache.patches) * len(c08Cache.inputs)
	ill = len(c08IllTyped) * 4
	if tier == "thorough" {
		flipP = truncP * len(c08Alphabet)
		flipT = 1_200_000
		rderr = 200_000
	} else {
		flipP = 400_000
		flipT = 40_000
		rderr = 10_000
	}
	return
}

func (c08) NumCases(tier string) int {
	a, b, c, d, e, f, g := c08Sizes(tier)
	return a + b + c + d + e + f + g + c08OpFaultWorlds(tier) + c08IllCrossN() + c08ScaleN() + c08TwoChangeN() + c08BulkN() + c08CLIFormsN() + c08TreeWorlds(tier)
}

func c08TreeWorlds(tier string) int {
	if tier == "thorough" {
		return 240_000
	}
	return 3_000
}

func (c08) Describe() CheckInfo {
	return CheckInfo{
		Level: "fault_enumeration",
		Rule: "storage/stream faults on the two input channels, enumerated over the working tree's corpus (testdata txtar cases, examples/*.patch, testdata/patch/*.patch) plus the generated templates: " +
			"(trunc-patch) EVERY prefix P[:k], k=0..|P|, of every patch — exhaustive in both tiers; (trunc-target) every prefix of every corpus input — exhaustive in both tiers; (flip-patch) single-byte substitution from a 32-symbol alphabet of structurally meaningful bytes at every offset (thorough; seeded sample in quick); (flip-target) seeded sample; " +
			"(cross) every intact patch against every corpus input — exhaustive in both tiers; (read-error) an EIO injected into the patch stream after k bytes, which must yield exit != 0 and no modified file; (ill-typed) a fixed family of well-formed but ill-typed or oddly shaped patches and targets; (op-fault) for sampled corpus worlds every operation of an in-place run is failed once (file writes also persistently): no crash, no hang. (ill-cross) '-' sides x '+' sides of different syntactic kinds, and every list-bearing construct x forms of the elision x '+' sides that keep only the elision against targets where '...' stands for nothing; (ill-typed) includes every token of a small alphabet inserted at every token boundary of a metavariables section. Every variant runs through the real main() (patch via -p file or stdin with short reads) and through patch.Parse + File.Apply. " +
			"A case must end within the step budget with exit 0, or exit != 0 and a diagnostic; never a panic, fatal error, no-progress or memory-limit death. distinct = distinct (family, patch or input, outcome class) tuples",
		Assumptions: []string{
			"termination is decided by logical steps (yield points executed), not seconds: the budget is 6e7 steps, four to five orders of magnitude above fault-free runs; loops in un-instrumented library code would be reported as inconclusive (exit 2), never as a violation",
			"uniformly random byte strings and grammar-generated ill-typed patches beyond the fixed family are fuzzing, not this technique, and are not attempted",
			"workers run under RLIMIT_AS 8 GiB; exceeding it kills the worker and counts as a violation",
		},
		RealCode:       []string{"gopatch main(), loader, internal/parse (section splitter, meta parser), internal/pgo (augmenter), internal/engine, patch.Parse/File.Apply"},
		Stubs:          []string{"package os (patch delivered through simulated files and a chunked simulated stdin)", "path/filepath walk", "io/ioutil"},
		RequiredProbes: []string{"trunc-patch", "trunc-target", "flip-patch", "flip-target", "cross", "read-error-fired", "ill-typed", "op-fault", "ill-cross", "scale", "two-change", "bulk", "bulk-memory-measured", "bulk-growth-measured", "patch-list-layouts", "cli-forms", "stdin-is-a-terminal", "op-fault-second-actor", "tree", "tree-symlink-cycle", "patch-rejected", "patch-accepted", "stdin-short-reads", "api-parse", "api-apply"},
	}
}

func (c08) Gen(env *Env, seed uint64, tier string, i int) *Case {
	c08Load()
	tp, tt, fp, ft, cr, re, il := c08Sizes(tier)
	r := world.NewPRNG(world.Mix(seed, 8, uint64(i)))
	c := NewCLICase("C08", "", i, seed)
	ps := c08Cache.patches
	ins := c08Cache.inputs
	var patch []byte
	var inputs []CorpusFile
	pickPatchOffset := func(n int) (c08Patch, int) {
		for _, p := range ps {
			if n <= len(p.Data) {
				return p, n
			}
			n -= len(p.Data) + 1
		}
		return ps[0], 0
	}
	switch {
	case i < tp:
		p, k := pickPatchOffset(i)
		c.Sub = "trunc-patch"
		patch, inputs = p.Data[:k], p.Inputs
		c.Extra["what"] = fmt.Sprintf("%s[:%d]", p.Name, k)
		c.Extra["key"] = p.Name
	case i < tp+tt:
		c.Sub = "trunc-target"
		j := i - tp
		var in CorpusFile
		k := 0
		for _, x := range ins {
			if j <= len(x.Data) {
				in, k = x, j
				break
			}
			j -= len(x.Data) + 1
		}
		if in.Data == nil {
			in = ins[0]
		}
		p := c08PatchFor(in)
		patch = p.Data
		inputs = []CorpusFile{{Name: in.Name, Data: in.Data[:k]}}
		c.Extra["what"] = fmt.Sprintf("%s with target %s[:%d]", p.Name, in.Name, k)
		c.Extra["key"] = in.Name + "@" + p.Name
	case i < tp+tt+fp:
		c.Sub = "flip-patch"
		j := i - tp - tt
		var p c08Patch
		var off int
		var sym byte
		if tier == "thorough" {
			p, off = pickPatchOffset(j / len(c08Alphabet))
			sym = c08Alphabet[j%len(c08Alphabet)]
		} else {
			p = ps[r.Intn(len(ps))]
			off = r.Intn(len(p.Data) + 1)
			sym = c08Alphabet[r.Intn(len(c08Alphabet))]
		}
		d := append([]byte(nil), p.Data...)
		if off < len(d) {
			d[off] = sym
		} else {
			d = append(d, sym)
		}
		patch, inputs = d, p.Inputs
		c.Extra["what"] = fmt.Sprintf("%s with byte %d := %q", p.Name, off, sym)
		c.Extra["key"] = p.Name
	case i < tp+tt+fp+ft:
		c.Sub = "flip-target"
		in := ins[r.Intn(len(ins))]
		p := c08PatchFor(in)
		d := append([]byte(nil), in.Data...)
		off := r.Intn(len(d) + 1)
		sym := c08Alphabet[r.Intn(len(c08Alphabet))]
		if off < len(d) {
			d[off] = sym
		} else {
			d = append(d, sym)
		}
		patch = p.Data
		inputs = []CorpusFile{{Name: in.Name, Data: d}}
		c.Extra["what"] = fmt.Sprintf("%s with target %s byte %d := %q", p.Name, in.Name, off, sym)
		c.Extra["key"] = in.Name
	case i < tp+tt+fp+ft+cr:
		c.Sub = "cross"
		j := i - tp - tt - fp - ft
		p := ps[(j/len(ins))%len(ps)]
		in := ins[j%len(ins)]
		patch, inputs = p.Data, []CorpusFile{in}
		c.Extra["what"] = p.Name + " x " + in.Name
		c.Extra["key"] = p.Name + "x" + in.Name
	case i < tp+tt+fp+ft+cr+re:
		c.Sub = "read-error"
		p := ps[r.Intn(len(ps))]
		patch, inputs = p.Data, p.Inputs
		c.Extra["errat"] = fmt.Sprint(r.Intn(len(p.Data) + 1))
		c.Extra["what"] = fmt.Sprintf("%s with EIO after %s bytes", p.Name, c.Extra["errat"])
		c.Extra["key"] = p.Name
	case i >= tp+tt+fp+ft+cr+re+il+c08OpFaultWorlds(tier):
		j := i - (tp + tt + fp + ft + cr + re + il + c08OpFaultWorlds(tier))
		switch {
		case j < c08IllCrossN():
			c.Sub = "ill-cross"
			nm, pt, src := c08IllCross(j)
			patch = pt
			inputs = []CorpusFile{{Name: "t.go", Data: src}}
			c.Extra["what"] = "generated ill-typed " + nm
			c.Extra["key"] = nm
		case j < c08IllCrossN()+c08ScaleN():
			c.Sub = "scale"
			nm, pt, src := c08Scale(j - c08IllCrossN())
			patch = pt
			inputs = []CorpusFile{{Name: "t.go", Data: src}}
			c.Extra["what"] = nm
			c.Extra["key"] = nm
		case j < c08IllCrossN()+c08ScaleN()+c08TwoChangeN():
			c.Sub = "two-change"
			nm, pts, src := c08TwoChange(j - c08IllCrossN() - c08ScaleN())
			patch = pts[0]
			if len(pts) > 1 {
				c.AddPatch("pa.patch", "p", pts[0], nil, nil)
				patch = pts[1]
				c.Extra["api_patch"] = string(pts[0]) + "\n" + string(pts[1])
			}
			inputs = []CorpusFile{{Name: "t.go", Data: src}}
			c.Extra["what"] = nm
			c.Extra["key"] = nm
		case j < c08IllCrossN()+c08ScaleN()+c08TwoChangeN()+c08BulkN():
			c.Sub = "bulk"
			nm, pt, src := c08Bulk(j - c08IllCrossN() - c08ScaleN() - c08TwoChangeN())
			patch = pt
			inputs = []CorpusFile{{Name: "t.go", Data: src}}
			c.Extra["what"] = nm
			c.Extra["key"] = nm
		case j < c08IllCrossN()+c08ScaleN()+c08TwoChangeN()+c08BulkN()+c08CLIFormsN():
			// the option parser's edges: no arguments, --version, help, missing values,
			// unknown flags, "--", empty strings, a directory as patch
			k := j - c08IllCrossN() - c08ScaleN() - c08TwoChangeN() - c08BulkN()
			form := c08CLIForms[k%len(c08CLIForms)]
			c.Sub = "cli-forms"
			c.AddPatch("p0.patch", "p", []byte("@@\nvar x expression\n@@\n-foo(x)\n+bar(x)\n"), nil, nil)
			c.AddFile("t.go", []byte("package sample\n\nfunc f() {\n\tfoo(1)\n}\n"), "input", nil, "")
			var args []string
			for _, a := range form {
				switch a {
				case "P":
					a = PatDir + "/p0.patch"
				case "F":
					a = "t.go"
				case "D":
					a = ProjDir
				case "-p=P":
					a = "-p=" + PatDir + "/p0.patch"
				case "--patch=P":
					a = "--patch=" + PatDir + "/p0.patch"
				}
				args = append(args, a)
			}
			c.Spec.Args = args
			switch k / len(c08CLIForms) {
			case 1:
				c.Spec.Stdin = []byte("@@\n@@\n-foo\n+baz\n")
			case 2:
				c.Spec.Stdin = []byte("not a patch at all")
				c.Spec.Knobs.StdinChunk = -3
			}
			c.Extra["what"] = fmt.Sprintf("argument vector %q", form)
			c.Extra["key"] = fmt.Sprint(k)
			c.Extra["fixed_args"] = "1"
			return c
		default:
			// directory trees with symlinks of every kind (also cyclic), fifos, odd
			// names: enumeration must terminate and must not crash
			t := Lookup("C15").Gen(env, seed, tier, j-c08IllCrossN()-c08ScaleN()-c08TwoChangeN()-c08BulkN()-c08CLIFormsN())
			t.Prop, t.Sub = "C08", "tree"
			t.Idx = i
			t.Extra["what"] = "generated directory tree"
			t.Extra["key"] = fmt.Sprint(len(t.Spec.Nodes))
			if r.Chance(1, 2) {
				c08AddSymlinkCycle(t, r)
			}
			t.RebuildArgs()
			return t
		}
	case i >= tp+tt+fp+ft+cr+re+il:
		// environment faults while an intact patch is applied in place: every
		// operation of the run is failed once; gopatch must not crash or hang
		c.Sub = "op-fault"
		p := ps[r.Intn(len(ps))]
		for len(p.Inputs) == 0 {
			p = ps[r.Intn(len(ps))]
		}
		patch, inputs = p.Data, p.Inputs
		c.Extra["what"] = "every operation failed once while applying " + p.Name
		c.Extra["key"] = p.Name
	default:
		_ = il
		c.Sub = "ill-typed"
		j := (i - tp - tt - fp - ft - cr - re) % len(c08IllTyped)
		it := c08IllTyped[j]
		patch = []byte(it.patch)
		body := it.stmt
		if r.Chance(1, 2) && !strings.Contains(it.stmt, "\n") && !strings.HasPrefix(it.stmt, "return") {
			body = "if ok {\n\t\t" + it.stmt + "\n\t}"
		}
		inputs = []CorpusFile{{Name: "t.go", Data: []byte("package sample\n\nfunc f() {\n\t" + body + "\n}\n")}}
		if strings.HasPrefix(it.stmt, "FILE:") {
			inputs[0].Data = []byte(strings.TrimPrefix(it.stmt, "FILE:"))
		}
		c.Extra["what"] = "ill-typed " + it.name
		c.Extra["key"] = it.name
	}
	via := "p"
	if r.Chance(1, 2) && len(c.Patches) == 0 {
		via = "stdin"
		c.Spec.Knobs.StdinChunk = -r.Range(1, 64)
	}
	if c.Sub == "read-error" && r.Chance(1, 2) {
		via = "P"
	} else if r.Chance(1, 8) && len(c.Patches) == 0 {
		// the patch named in a list file, in every layout such a file may have
		via = "P"
		c.Extra["list_style"] = r.Pick([]string{"blank-lines", "ws-lines", "crlf", "no-final-nl", "comment", "trailing-space", "empty", "nul"})
		c.Spec.Knobs.StdinChunk = 0
	}
	c.AddPatch("p0.patch", via, patch, nil, nil)
	for j, in := range inputs {
		nm := in.Name
		if !strings.HasSuffix(nm, ".go") {
			nm = fmt.Sprintf("in%d.go", j)
		}
		c.AddFile(nm, in.Data, "input", nil, "")
	}
	c.AddFile("zz_unrelated.go", []byte("package zz\n\nfunc unrelated() int { return 1 }\n"), "other", nil, "")
	c.Flags = Flags{Print: r.Chance(1, 2), SkipImport: r.Chance(1, 4)}
	if !c.Flags.Print && r.Chance(1, 3) {
		c.Flags.Diff = true
	}
	if c.Sub == "op-fault" {
		c.Flags = Flags{Verbose: r.Chance(1, 3), SkipImport: r.Chance(1, 4)}
		if r.Chance(1, 3) {
			c.Flags.Print = true
		} else if r.Chance(1, 6) {
			c.Flags.Diff = true
		}
		if r.Chance(1, 2) {
			c.AddFile("sub/dir/inner.go", []byte("package inner\n\nfunc inner() int { return 7 }\n"), "other", nil, "")
			if len(inputs) > 0 {
				c.AddFile("sub/match.go", inputs[0].Data, "input", nil, "")
			}
		}
		if r.Chance(1, 3) {
			// a longer queue of files behind the one that is struck
			for j := 0; j < r.Range(6, 14); j++ {
				if r.Chance(1, 2) && len(inputs) > 0 {
					c.AddFile(fmt.Sprintf("q%02d_copy.go", j), inputs[r.Intn(len(inputs))].Data, "input", nil, "")
				} else {
					c.AddFile(fmt.Sprintf("q%02d_plain.go", j), []byte(fmt.Sprintf("package zz\n\nfunc plain%d() int { return %d }\n", j, j)), "other", nil, "")
				}
			}
			c.Extra["long_queue"] = "1"
		}
		c.Extra["rng"] = fmt.Sprint(r.Uint64())
	}
	c.Targets = []string{"."}
	c.Spec.Knobs.FileChunk = -r.Range(1, 512)
	c.RebuildArgs()
	if via != "stdin" && r.Chance(1, 2) {
		// patches come from -p/-P: standard input is the user's terminal and must
		// not be waited for
		c.Spec.Knobs.StdinBlocks = true
		c.Extra["stdin_terminal"] = "1"
	}
	return c
}

// c08OpFaults fails every operation of a fault-free pilot once (and, for file
// writes, persistently) and requires that gopatch neither crashes nor hangs.
func c08OpFaults(env *Env, c *Case, add func(string, string, string)) []Violation {
	var vs []Violation
	base := c.Spec.Clone()
	base.Faults = nil
	seen := map[string]bool{}
	judge := func(faults []world.Fault) {
		spec := base.Clone()
		spec.Faults = faults
		r := env.Run(spec)
		if len(r.Fired) == 0 {
			return
		}
		f := r.Fired[0]
		env.Seen("op-fault|" + f.Name + "|" + f.Err + "|" + r.Outcome)
		var v *Violation
		switch r.Outcome {
		case OutCrash:
			v = &Violation{Oracle: "panic", Signature: "C08/panic/under-fault:" + NormalizePanic(r.Panic) + "@" + InnermostRepoFunc(r.Stack), Detail: fmt.Sprintf("gopatch panicked when %s %s failed with %s: %s\n%s [%s; args %v]", f.Name, f.Path, f.Err, r.Panic, clip(r.Stack, 1500), c.Extra["what"], c.Spec.Args)}
		case OutNoProgress:
			v = &Violation{Oracle: "no-progress", Signature: "C08/no-progress/under-fault:" + r.Spin, Detail: fmt.Sprintf("gopatch made no progress after %s %s failed with %s (spinning in %s) [%s; args %v]", f.Name, f.Path, f.Err, r.Spin, c.Extra["what"], c.Spec.Args)}
		}
		if v != nil && !seen[v.Signature] {
			seen[v.Signature] = true
			cc := c.Clone()
			cc.Spec.Faults = faults
			v.Case = cc
			vs = append(vs, *v)
		}
	}
	if len(c.Spec.Faults) > 0 {
		judge(c.Spec.Faults)
		return vs
	}
	pilot := env.Run(base)
	if pilot.Outcome != OutExit {
		return nil // the intact-patch families report this
	}
	var seedv uint64
	fmt.Sscan(c.Extra["rng"], &seedv)
	r := world.NewPRNG(seedv)
	wrote := wroteHandles(pilot.Log)
	for k, o := range pilot.Log {
		if o.Name == "exit" {
			continue
		}
		ens := c16Errnos[opClass(o, wrote)]
		f := world.Fault{AtOp: k, Kind: "fail", Errno: ens[r.Intn(len(ens))]}
		if (o.Name == "write" || o.Name == "read" || o.Name == "stdout" || o.Name == "stdin") && o.N > 0 {
			f.Bytes = r.Intn(o.N + 1)
		}
		judge([]world.Fault{f})
		if o.Name == "write" {
			f.Sticky = true
			judge([]world.Fault{f})
		}
		if o.Name == "open" && strings.HasSuffix(o.Path, ".go") && strings.HasPrefix(o.Path, ProjDir+"/") {
			// a second actor: the file is removed, or the directory it lives in is
			// replaced by a plain file, after the walk and before the read
			env.Probe("op-fault-second-actor")
			judge([]world.Fault{{AtOp: k, Kind: "extern", Path: o.Path, Errno: "REMOVE"}})
			if path.Dir(o.Path) != ProjDir {
				judge([]world.Fault{{AtOp: k, Kind: "extern", Path: o.Path, Errno: "PARENT-TO-FILE"}})
			}
		}
	}
	return vs
}

func c08PatchFor(in CorpusFile) c08Patch {
	for _, p := range c08Cache.patches {
		for _, x := range p.Inputs {
			if x.Name == in.Name && bytes.Equal(x.Data, in.Data) {
				return p
			}
		}
	}
	return c08Cache.patches[0]
}

func (c08) Eval(env *Env, c *Case) (vs []Violation) {
	if c.Sub == "tree" {
		// enumerating a tree of at most a few hundred nodes and patching its files
		// needs well under 1e6 steps; a walk that never ends is caught early
		b := DefaultBudget
		DefaultBudget = 6_000_000
		defer func() { DefaultBudget = b }()
	}
	what := c.Extra["what"]
	add := func(oracle, sig, detail string) {
		vs = append(vs, Violation{Oracle: oracle, Signature: "C08/" + oracle + "/" + sig, Detail: detail + " [" + c.Sub + ": " + what + "; args " + fmt.Sprint(c.Spec.Args) + "]"})
	}
	env.Probe(c.Sub)
	if c.Extra["list_style"] != "" {
		env.Probe("patch-list-layouts")
	}
	if c.Extra["stdin_terminal"] == "1" {
		env.Probe("stdin-is-a-terminal")
	}
	if c.Extra["symlink_cycle"] == "1" {
		env.Probe("tree-symlink-cycle")
	}
	spec := c.Spec
	if c.Sub == "op-fault" {
		return c08OpFaults(env, c, add)
	}
	if c.Sub == "read-error" {
		// find the read op of the patch in a pilot, then inject the error there
		pilot := RunCLI(env.Prog, c.Spec)
		var at int
		fmt.Sscan(c.Extra["errat"], &at)
		ppath := c.Patches[0].Path
		if c.Patches[0].Via == "stdin" {
			ppath = "/dev/stdin"
		}
		cum := 0
		target := -1
		bytesIn := 0
		for _, o := range pilot.Log {
			if (o.Name == "read" || o.Name == "stdin") && o.Path == ppath {
				if at < cum+o.N || o.N == 0 {
					target = o.Seq
					bytesIn = at - cum
					break
				}
				cum += o.N
			}
		}
		if target >= 0 {
			spec = c.Spec.Clone()
			spec.Faults = []world.Fault{{AtOp: target, Kind: "fail", Errno: "EIO", Bytes: bytesIn}}
		}
	}
	init := c.InitialState()
	var m0 runtime.MemStats
	if c.Sub == "bulk" {
		runtime.GC()
		runtime.ReadMemStats(&m0)
	}
	r := env.Run(spec)
	if c.Sub == "bulk" {
		// memory obtained from the operating system is a high-water mark: a run
		// that makes it jump by gigabytes for an input of at most a few hundred
		// kilobytes holds a structure quadratic in the length of some list
		var m1 runtime.MemStats
		runtime.ReadMemStats(&m1)
		grown := int64(m1.Sys) - int64(m0.Sys)
		env.Probe("bulk-memory-measured")
		if grown > 768<<20 {
			add("memory", "quadratic-growth", fmt.Sprintf("processing a %d-byte file made the process obtain %d MiB more from the operating system", len(c.NodeData(c.Files[0].Path)), grown>>20))
		}
		runtime.GC()
		debug.FreeOSMemory()
		// order of growth: twice the elements, all of them rewritten, may cost four
		// times the steps (quadratic, as today), not eight times and more
		if half := c08GrowthHalf(c.Extra["what"]); half != nil && r.Outcome == OutExit && r.Exit == 0 {
			hs := spec.Clone()
			for k := range hs.Nodes {
				if hs.Nodes[k].Path == c.Files[0].Path {
					hs.Nodes[k].Data = half
				}
			}
			rh := env.Run(hs)
			if rh.Outcome == OutExit && rh.Exit == 0 && rh.Steps > 100_000 {
				env.Probe("bulk-growth-measured")
				if ratio := float64(r.Steps) / float64(rh.Steps); ratio > 6.5 {
					add("growth", "worse-than-quadratic", fmt.Sprintf("rewriting every element of a list: %d steps for the list of half the length, %d steps for the whole one (factor %.1f; quadratic would be 4)", rh.Steps, r.Steps, ratio))
				}
			}
		}
	}
	outcome := r.Outcome
	switch r.Outcome {
	case OutCrash:
		add("panic", NormalizePanic(r.Panic)+"@"+InnermostRepoFunc(r.Stack), fmt.Sprintf("gopatch panicked: %s\n%s", r.Panic, clip(r.Stack, 1500)))
	case OutNoProgress:
		add("no-progress", r.Spin, fmt.Sprintf("gopatch made no progress: step budget of %d steps exhausted, spinning in %s\n%s", DefaultBudget, r.Spin, clip(r.Stack, 1200)))
	case OutBlocked:
		add("no-progress", "blocked-reading-stdin@"+InnermostRepoFunc(r.Stack), fmt.Sprintf("gopatch reads standard input although its patches were named on the command line; standard input is a terminal that never delivers end of file, so it waits for ever\n%s", clip(r.Stack, 1200)))
	case OutExit:
		if r.Exit != 0 && len(bytes.TrimSpace(r.Stderr)) == 0 {
			add("silent-failure", "exit-nonzero-no-diagnostic", fmt.Sprintf("exit status %d with an empty stderr", r.Exit))
		}
		if r.Exit == 0 {
			outcome = "ok"
			env.Probe("patch-accepted")
		} else {
			outcome = "rejected"
			env.Probe("patch-rejected")
		}
	}
	if c.Spec.Knobs.StdinChunk != 0 && c.Patches[0].Via == "stdin" {
		env.Probe("stdin-short-reads")
	}
	if c.Sub == "read-error" && len(r.Fired) > 0 && r.Outcome == OutExit {
		env.Probe("read-error-fired")
		if r.Exit == 0 {
			add("read-error-ignored", "exit-zero", fmt.Sprintf("the patch stream failed with EIO after %s bytes but gopatch exited 0", c.Extra["errat"]))
		}
		if d := SnapEqual(init, r.Final); d != "" {
			add("read-error-ignored", "applied-truncated-patch", fmt.Sprintf("the patch stream failed with EIO after %s bytes but files were modified: %s", c.Extra["errat"], d))
		}
	}
	// library API
	apiPatch := []byte(c.Patches[0].Data)
	if x := c.Extra["api_patch"]; x != "" {
		apiPatch = []byte(x)
	}
	ap, pres := ParseAPI(env.Prog, "p0.patch", apiPatch)
	env.Probe("api-parse")
	HashBytes([]byte(pres.Key()))
	switch {
	case pres.Panic != "":
		add("panic", "api:"+NormalizePanic(pres.Panic)+"@"+InnermostRepoFunc(pres.Stack), fmt.Sprintf("patch.Parse panicked: %s\n%s", pres.Panic, clip(pres.Stack, 1500)))
	case pres.NoProg:
		add("no-progress", "api:"+pres.Spin, fmt.Sprintf("patch.Parse made no progress (step budget exhausted)\n%s", clip(pres.Stack, 1200)))
	case ap != nil:
		for _, f := range c.Files {
			ares := ApplyAPI(ap, f.Path, c.NodeData(f.Path))
			env.Probe("api-apply")
			HashBytes([]byte(ares.Key()))
			if ares.Panic != "" {
				add("panic", "api:"+NormalizePanic(ares.Panic)+"@"+InnermostRepoFunc(ares.Stack), fmt.Sprintf("File.Apply panicked: %s\n%s", ares.Panic, clip(ares.Stack, 1500)))
			} else if ares.NoProg {
				add("no-progress", "api:"+ares.Spin, fmt.Sprintf("File.Apply made no progress (step budget exhausted)\n%s", clip(ares.Stack, 1200)))
			} else if ares.IsErr && strings.TrimSpace(ares.Err) == "" {
				add("silent-failure", "api-empty-error", "File.Apply returned an error with an empty message")
			}
		}
	}
	env.Seen(c.Sub + "|" + c.Extra["key"] + "|" + outcome)
	if !env.Quiet && c.Idx%97 == 0 {
		env.Stats.Sample(map[string]interface{}{"family": c.Sub, "what": what, "args": c.Spec.Args, "outcome": outcome, "exit": r.Exit, "stderr": clip(string(r.Stderr), 160)}, 4)
	}
	return vs
}

// c08AddSymlinkCycle plants directory symlinks that form a cycle which does not
// pass through an ancestor link: a/to_b -> ../b and b/to_a -> ../a (also a
// three-cycle and a self-referring link), below a directory named as an argument.
func c08AddSymlinkCycle(c *Case, r *world.PRNG) {
	base := ProjDir + "/" + r.Pick([]string{"cyc", "pkg/cyc", "a"})
	names := []string{"p", "q", "s"}
	n := r.Range(2, 3)
	for k := 0; k < n; k++ {
		d := base + "/" + names[k]
		c.SetNode(world.NodeSpec{Path: base, Kind: "dir"})
		c.SetNode(world.NodeSpec{Path: d, Kind: "dir"})
		c.SetNode(world.NodeSpec{Path: d + "/x.go", Kind: "file", Data: c15GoFile(900 + k)})
		next := names[(k+1)%n]
		tgt := "../" + next
		if r.Chance(1, 3) {
			tgt = base + "/" + next
		}
		c.SetNode(world.NodeSpec{Path: d + "/to_" + next, Kind: "symlink", Target: tgt})
	}
	if r.Chance(1, 3) {
		c.SetNode(world.NodeSpec{Path: base + "/self", Kind: "symlink", Target: "."})
	}
	// make sure the parent directories exist as nodes
	for p := path.Dir(base); strings.HasPrefix(p, ProjDir+"/"); p = path.Dir(p) {
		c.SetNode(world.NodeSpec{Path: p, Kind: "dir"})
	}
	c.Targets = append(c.Targets, r.Pick([]string{".", "./...", strings.TrimPrefix(base, ProjDir+"/"), base + "/..."}))
	c.Extra["symlink_cycle"] = "1"
}
