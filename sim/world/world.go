// Package world is the simulated environment underneath gopatch: an in-memory
// filesystem with kernel-like path resolution, three standard streams, the
// process boundary, an operation log and the fault plan.
package world

import (
	"sync"
	"sync/atomic"

	"io"
	"io/fs"
	"runtime"
	"sort"
	"strings"
	"syscall"
	"time"
	"verif.local/sim/simrt"
)

// Kind of an inode.
type Kind uint8

const (
	KDir Kind = iota + 1
	KFile
	KSymlink
	KFifo
)

func (k Kind) String() string {
	switch k {
	case KDir:
		return "dir"
	case KFile:
		return "file"
	case KSymlink:
		return "symlink"
	case KFifo:
		return "fifo"
	}
	return "?"
}

// Inode is one filesystem object.
type Inode struct {
	Ino      uint64
	Kind     Kind
	Perm     fs.FileMode // permission bits only
	Data     []byte
	Target   string
	Children map[string]*Inode
	Order    []string // insertion order of children (directory "disk order")
	Nlink    int
	Mtime    int64 // logical tick of last modification
}

// Mode returns the full fs.FileMode.
func (n *Inode) Mode() fs.FileMode {
	switch n.Kind {
	case KDir:
		return n.Perm | fs.ModeDir
	case KSymlink:
		return n.Perm | fs.ModeSymlink
	case KFifo:
		return n.Perm | fs.ModeNamedPipe
	}
	return n.Perm
}

// Op is one entry of the operation log.
type Op struct {
	Seq   int    `json:"seq"`
	Name  string `json:"op"`
	Path  string `json:"path,omitempty"`  // lexically absolute path the call named
	Path2 string `json:"path2,omitempty"` // second path (rename, link, symlink)
	Ino   uint64 `json:"ino,omitempty"`
	Flags int    `json:"flags,omitempty"`
	N     int    `json:"n,omitempty"`
	Err   string `json:"err,omitempty"`
	Mut   bool   `json:"mut,omitempty"`   // changed (or, when it failed by injection, would have changed) the filesystem
	Fault string `json:"fault,omitempty"` // kind of the injected fault that struck this op
	Post  bool   `json:"post,omitempty"`  // issued after the process was killed; had no effect
	Site  string `json:"site,omitempty"`  // gopatch function that issued a mutating op
	H     int    `json:"h,omitempty"`     // handle number for open/read/write/close/... (0 = none or stream)
}

// callSite returns the innermost gopatch function on the stack.
func callSite() string {
	var pcs [24]uintptr
	n := runtime.Callers(3, pcs[:])
	frames := runtime.CallersFrames(pcs[:n])
	for {
		fr, more := frames.Next()
		if strings.HasPrefix(fr.Function, "github.com/uber-go/gopatch") {
			fn := strings.TrimPrefix(fr.Function, "github.com/uber-go/gopatch")
			fn = strings.TrimLeft(fn, "/.")
			if i := strings.Index(fn, ".func"); i > 0 && i+5 < len(fn) && fn[i+5] >= '0' && fn[i+5] <= '9' {
				fn = fn[:i]
			}
			return fn
		}
		if !more {
			return ""
		}
	}
}

// Kill is the panic value that unwinds the program after an injected kill.
type Kill struct{ AtOp int }

// Blocked is the panic value that unwinds the program when it enters a read
// that can never return (standard input that is neither closed nor written to).
type Blocked struct{ AtOp int }

// Exit is the panic value that unwinds the program on os.Exit.
type Exit struct{ Code int }

// World is the live environment of one simulated run.
type World struct {
	Spec Spec

	Root    *Inode
	Cwd     string
	Args    []string
	Env     map[string]string
	nextIno uint64
	tick    int64

	Log    []Op
	Frozen bool // killed: nothing has effect any more
	// the kill struck an operation of a goroutine other than main
	killPending bool
	// one goroutine at a time inside the world (re-entrant): gopatch runs on one
	// goroutine today, a changed gopatch may not
	gilMu    sync.Mutex
	gilOwner uintptr
	gilDepth int
	Killed   bool
	Blocked  bool // stuck in a read of standard input that never returns
	ExitCode int
	Exited   bool

	Stdout      []byte
	Stderr      []byte
	sigHandlers map[string][]sigHandler
	sigIgnored  map[string]bool
	// SignalsNotified: the program installed or ignored a signal handler
	SignalsNotified bool
	nextH           int
	openH           int // handles opened and not yet closed
	MaxOpenH        int // high-water mark of openH
	FiredSeq        []int
	stickyErr       syscall.Errno
	// OutEvents records the order of stream writes: (seq, fd, n)
	stdinPos      int
	stdinErr      syscall.Errno
	stdinEOF      bool
	faultAt       map[int]Fault
	rng           *PRNG
	InvariantHook func(w *World, op *Op) // called after every op (harness invariants)
}

const baseTime = 1_600_000_000

// New builds a world from its spec.
func New(spec Spec) *World {
	w := &World{Spec: spec, Cwd: spec.Cwd, Args: spec.Args, Env: map[string]string{"PWD": spec.Cwd}}
	for k, v := range spec.Env {
		w.Env[k] = v
	}
	w.nextIno = 2
	w.Root = &Inode{Ino: 1, Kind: KDir, Perm: 0o755, Children: map[string]*Inode{}, Nlink: 2}
	w.rng = NewPRNG(Mix(spec.Knobs.Seed, 77))
	w.faultAt = map[int]Fault{}
	for _, f := range spec.Faults {
		w.faultAt[f.AtOp] = f
	}
	for _, n := range spec.Nodes {
		w.install(n)
	}
	if w.Cwd == "" {
		w.Cwd = "/"
	}
	return w
}

func (w *World) newInode(k Kind, perm fs.FileMode) *Inode {
	n := &Inode{Ino: w.nextIno, Kind: k, Perm: perm, Nlink: 1}
	w.nextIno++
	if k == KDir {
		n.Children = map[string]*Inode{}
		n.Nlink = 2
	}
	return n
}

func (d *Inode) addChild(name string, c *Inode) {
	if _, ok := d.Children[name]; !ok {
		d.Order = append(d.Order, name)
	}
	d.Children[name] = c
}

func (d *Inode) delChild(name string) {
	delete(d.Children, name)
	for i, s := range d.Order {
		if s == name {
			d.Order = append(d.Order[:i:i], d.Order[i+1:]...)
			break
		}
	}
}

func splitPath(p string) []string {
	var out []string
	for _, c := range strings.Split(p, "/") {
		if c != "" && c != "." {
			out = append(out, c)
		}
	}
	return out
}

// install creates a node of the initial tree without logging.
func (w *World) install(ns NodeSpec) {
	comps := splitPath(ns.Path)
	cur := w.Root
	for i, c := range comps {
		last := i == len(comps)-1
		child := cur.Children[c]
		if !last {
			if child == nil {
				child = w.newInode(KDir, 0o755)
				cur.addChild(c, child)
			}
			cur = child
			continue
		}
		var n *Inode
		switch ns.Kind {
		case "dir":
			if child != nil && child.Kind == KDir {
				if ns.Mode != 0 {
					child.Perm = fs.FileMode(ns.Mode) & 0o7777
				}
				return
			}
			n = w.newInode(KDir, 0o755)
		case "file":
			n = w.newInode(KFile, 0o644)
			n.Data = append([]byte(nil), ns.Data...)
		case "symlink":
			n = w.newInode(KSymlink, 0o777)
			n.Target = ns.Target
		case "fifo":
			n = w.newInode(KFifo, 0o644)
		case "hardlink":
			// a second name for an existing regular file (Target = its path)
			if t := w.Peek(ns.Target); t != nil && t.Kind == KFile {
				t.Nlink++
				cur.addChild(c, t)
				return
			}
			// the target is not part of this world (e.g. dropped for a solo run)
			return
		default:
			panic("world: bad node kind " + ns.Kind)
		}
		if ns.Mode != 0 {
			n.Perm = fs.FileMode(ns.Mode) & 0o7777
		}
		cur.addChild(c, n)
	}
}

// Abs makes a path lexically absolute against the simulated cwd.
func (w *World) Abs(p string) string {
	if strings.HasPrefix(p, "/") {
		return cleanPath(p)
	}
	return cleanPath(w.Cwd + "/" + p)
}

// cleanPath is path.Clean restricted to absolute slash paths, kept local to
// avoid importing path/filepath semantics by accident.
func cleanPath(p string) string {
	comps := strings.Split(p, "/")
	var st []string
	for _, c := range comps {
		switch c {
		case "", ".":
		case "..":
			if len(st) > 0 {
				st = st[:len(st)-1]
			}
		default:
			st = append(st, c)
		}
	}
	return "/" + strings.Join(st, "/")
}

type resolved struct {
	parent *Inode
	name   string
	node   *Inode
	real   string // resolved absolute path of node (or where it would be)
}

const maxSymlinks = 40

// resolve walks a path like the kernel does.
func (w *World) resolve(p string, followLast bool) (resolved, syscall.Errno) {
	if p == "" {
		return resolved{}, syscall.ENOENT
	}
	// PATH_MAX and NAME_MAX of Linux: the limits apply to the string handed to
	// the system call and to each of its components
	if len(p) >= 4096 {
		return resolved{}, syscall.ENAMETOOLONG
	}
	trailing := strings.HasSuffix(p, "/") && strings.Trim(p, "/") != ""
	var stack []*Inode
	var names []string
	push := func(n *Inode, name string) { stack = append(stack, n); names = append(names, name) }
	stack = append(stack, w.Root)
	names = append(names, "")
	if !strings.HasPrefix(p, "/") {
		for _, c := range splitPath(w.Cwd) {
			cur := stack[len(stack)-1]
			ch := cur.Children[c]
			if ch == nil || ch.Kind != KDir {
				return resolved{}, syscall.ENOENT
			}
			push(ch, c)
		}
	}
	comps := splitPath(p)
	// handle ".." that splitPath keeps
	links := 0
	for i := 0; i < len(comps); i++ {
		c := comps[i]
		cur := stack[len(stack)-1]
		last := i == len(comps)-1
		if cur.Kind != KDir {
			return resolved{}, syscall.ENOTDIR
		}
		if cur.Perm&0o100 == 0 {
			return resolved{}, syscall.EACCES
		}
		if c == ".." {
			if len(stack) > 1 {
				stack = stack[:len(stack)-1]
				names = names[:len(names)-1]
			}
			continue
		}
		if len(c) > 255 {
			if last {
				// the parent resolved; callers that care about the order in which the
				// kernel reports errors (rename) get it
				return resolved{parent: cur, name: c}, syscall.ENAMETOOLONG
			}
			return resolved{}, syscall.ENAMETOOLONG
		}
		ch := cur.Children[c]
		if ch == nil {
			if last {
				return resolved{parent: cur, name: c, real: strings.Join(names, "/") + "/" + c}, syscall.ENOENT
			}
			return resolved{}, syscall.ENOENT
		}
		if ch.Kind == KSymlink && (!last || followLast || trailing) {
			links++
			if links > maxSymlinks {
				return resolved{}, syscall.ELOOP
			}
			t := ch.Target
			if t == "" {
				return resolved{}, syscall.ENOENT
			}
			if len(t) >= 4096 {
				return resolved{}, syscall.ENAMETOOLONG
			}
			rest := append(splitPath(t), comps[i+1:]...)
			if strings.HasPrefix(t, "/") {
				stack = stack[:1]
				names = names[:1]
			}
			comps = rest
			i = -1
			if len(comps) == 0 {
				// symlink to "/" or "."
				break
			}
			continue
		}
		if last {
			if trailing && ch.Kind != KDir {
				return resolved{}, syscall.ENOTDIR
			}
			var parent *Inode = cur
			real := strings.Join(names, "/") + "/" + c
			return resolved{parent: parent, name: c, node: ch, real: real}, 0
		}
		push(ch, c)
	}
	// path resolved to a directory on the stack (e.g. "/", "a/..", symlink to /)
	n := stack[len(stack)-1]
	var parent *Inode
	if len(stack) > 1 {
		parent = stack[len(stack)-2]
	}
	real := strings.Join(names, "/")
	if real == "" {
		real = "/"
	}
	return resolved{parent: parent, name: names[len(names)-1], node: n, real: real}, 0
}

// ---------------------------------------------------------------------------
// op log and faults

// begin appends an op to the log and returns it together with the fault that
// strikes it, if any. If the world is frozen the op is marked post-mortem and
// ok is false: the caller must return an error without any effect.
func (w *World) begin(name, path string) (op *Op, flt *Fault, ok bool) {
	seq := len(w.Log)
	w.Log = append(w.Log, Op{Seq: seq, Name: name, Path: path})
	op = &w.Log[seq]
	if w.Frozen {
		op.Post = true
		op.Err = "EIO"
		if w.killPending && OnMainGoroutine != nil && OnMainGoroutine() {
			// killed while another goroutine was at work: main goes now
			w.killPending = false
			panic(Kill{AtOp: op.Seq})
		}
		return op, nil, false
	}
	if f, has := w.faultAt[seq]; has {
		ff := f
		if ff.Kind == "extern" {
			// another process appends to a file behind the program's back
			op.Fault = "extern"
			w.FiredSeq = append(w.FiredSeq, op.Seq)
			switch ff.Errno {
			case "REMOVE":
				// ... removes it
				if r, e := w.resolve(ff.Path, false); e == 0 && r.parent != nil && r.node != nil {
					r.parent.delChild(r.name)
					w.touch(r.parent)
				}
			case "PARENT-TO-FILE":
				// ... replaces the directory it lives in by a plain file
				if r, e := w.resolve(cleanPath(ff.Path+"/.."), false); e == 0 && r.parent != nil && r.node != nil && r.node.Kind == KDir {
					nf := w.newInode(KFile, 0o644)
					nf.Data = []byte("no longer a directory\n")
					r.parent.delChild(r.name)
					r.parent.addChild(r.name, nf)
					w.touch(r.parent)
				}
			default:
				// ... appends to it
				if n := w.Peek(ff.Path); n != nil && n.Kind == KFile {
					n.Data = append(append([]byte(nil), n.Data...), ff.Data...)
					w.touch(n)
				}
			}
			return op, nil, true
		}
		if ff.Kind == "signal" {
			// a signal arrives just before this operation; the operation itself
			// then proceeds normally (unless the signal terminates the process)
			w.deliverSignal(op, &ff)
			return op, nil, true
		}
		return op, &ff, true
	}
	return op, nil, true
}

// ---------------------------------------------------------------------------
// signals

type sigHandler struct {
	key     interface{}
	deliver func()
}

// NotifySignal registers a handler (signal.Notify): deliver is called, on the
// goroutine that executes the struck operation, when the named signal arrives.
func (w *World) NotifySignal(name string, key interface{}, deliver func()) {
	w.enter()
	defer w.leave()
	if w.sigHandlers == nil {
		w.sigHandlers = map[string][]sigHandler{}
	}
	w.sigHandlers[name] = append(w.sigHandlers[name], sigHandler{key, deliver})
	w.SignalsNotified = true
}

// StopSignals removes every handler registered under key (signal.Stop).
func (w *World) StopSignals(key interface{}) {
	w.enter()
	defer w.leave()
	for name, hs := range w.sigHandlers {
		var keep []sigHandler
		for _, h := range hs {
			if h.key != key {
				keep = append(keep, h)
			}
		}
		w.sigHandlers[name] = keep
	}
}

// IgnoreSignal / ResetSignal implement signal.Ignore and signal.Reset.
func (w *World) IgnoreSignal(name string) {
	w.enter()
	defer w.leave()
	if w.sigIgnored == nil {
		w.sigIgnored = map[string]bool{}
	}
	w.sigIgnored[name] = true
	delete(w.sigHandlers, name)
	w.SignalsNotified = true
}

func (w *World) ResetSignal(name string) {
	w.enter()
	defer w.leave()
	delete(w.sigIgnored, name)
	delete(w.sigHandlers, name)
}

func (w *World) SignalIgnored(name string) bool { return w.sigIgnored[name] }

func (w *World) deliverSignal(op *Op, f *Fault) {
	name := f.Errno
	if name == "" {
		name = "SIGTERM"
	}
	op.Fault = "signal"
	w.FiredSeq = append(w.FiredSeq, op.Seq)
	if w.sigIgnored[name] {
		return
	}
	if hs := w.sigHandlers[name]; len(hs) > 0 {
		for _, h := range hs {
			h.deliver()
		}
		return
	}
	// default action of SIGINT/SIGTERM/SIGHUP/SIGQUIT: the process dies here
	op.Err = "KILLED"
	w.Frozen = true
	w.Killed = true
	panic(Kill{AtOp: op.Seq})
}

func (w *World) end(op *Op) {
	if op.Mut && op.Site == "" && !op.Post {
		op.Site = callSite()
	}
	if w.InvariantHook != nil && !op.Post {
		w.InvariantHook(w, op)
	}
}

func (w *World) fired(op *Op, f *Fault) {
	op.Fault = f.Kind
	if f.Kind == "fail" {
		op.Err = ErrnoName(faultErrno(f))
	}
	w.FiredSeq = append(w.FiredSeq, op.Seq)
}

// FiredOps returns the ops at which faults fired, as finally logged.
func (w *World) FiredOps() []Op {
	var out []Op
	for _, s := range w.FiredSeq {
		out = append(out, w.Log[s])
	}
	return out
}

// enter and leave bracket every operation on the world. The lock is re-entrant
// per goroutine (operations call each other) and is released when a kill or
// exit sentinel unwinds through the deferred leave.
func (w *World) enter() {
	g := simrt.G()
	if atomic.LoadUintptr(&w.gilOwner) == g {
		w.gilDepth++
		return
	}
	w.gilMu.Lock()
	atomic.StoreUintptr(&w.gilOwner, g)
	w.gilDepth = 1
}

func (w *World) leave() {
	w.gilDepth--
	if w.gilDepth == 0 {
		atomic.StoreUintptr(&w.gilOwner, 0)
		w.gilMu.Unlock()
	}
}

// OnMainGoroutine, set by the harness, reports whether the calling goroutine is
// the one that runs the program's main. A process dies as a whole: when the kill
// strikes an operation of another goroutine, that goroutine ends there and main
// is unwound at its next operation (a panic in a goroutine nobody recovers
// would take the simulator down with it).
var OnMainGoroutine func() bool

// kill freezes the world and unwinds the program.
func (w *World) kill(op *Op, f *Fault) {
	op.Fault = "kill"
	op.Err = "KILLED"
	w.FiredSeq = append(w.FiredSeq, op.Seq)
	w.Frozen = true
	w.Killed = true
	if OnMainGoroutine != nil && !OnMainGoroutine() {
		w.killPending = true
		runtime.Goexit()
	}
	panic(Kill{AtOp: op.Seq})
}

// errnoByName maps names used in fault plans to errnos.
var errnoByName = map[string]syscall.Errno{
	"EACCES": syscall.EACCES, "EROFS": syscall.EROFS, "ENOENT": syscall.ENOENT,
	"EMFILE": syscall.EMFILE, "ELOOP": syscall.ELOOP, "EISDIR": syscall.EISDIR,
	"EIO": syscall.EIO, "ENOSPC": syscall.ENOSPC, "EFBIG": syscall.EFBIG,
	"EDQUOT": syscall.EDQUOT, "EPIPE": syscall.EPIPE, "ENOTDIR": syscall.ENOTDIR,
	"EEXIST": syscall.EEXIST, "EPERM": syscall.EPERM, "EXDEV": syscall.EXDEV,
	"ENOTEMPTY": syscall.ENOTEMPTY, "EINVAL": syscall.EINVAL, "EBUSY": syscall.EBUSY,
	"ENFILE": syscall.ENFILE, "ENOMEM": syscall.ENOMEM, "EINTR": syscall.EINTR,
	"ESTALE": syscall.ESTALE, "EBADF": syscall.EBADF, "ENAMETOOLONG": syscall.ENAMETOOLONG,
	"EAGAIN": syscall.EAGAIN,
}

// ErrnoName returns the symbolic name of an errno the simulator uses.
func ErrnoName(e syscall.Errno) string {
	for k, v := range errnoByName {
		if v == e {
			return k
		}
	}
	return "E" + itoa(int(e))
}

func itoa(i int) string {
	if i == 0 {
		return "0"
	}
	neg := i < 0
	if neg {
		i = -i
	}
	var b [20]byte
	p := len(b)
	for i > 0 {
		p--
		b[p] = byte('0' + i%10)
		i /= 10
	}
	if neg {
		p--
		b[p] = '-'
	}
	return string(b[p:])
}

func faultErrno(f *Fault) syscall.Errno {
	if e, ok := errnoByName[f.Errno]; ok {
		return e
	}
	return syscall.EIO
}

// simpleFault handles the fault (if any) for an op that has no byte-level
// structure. It returns a non-zero errno if the op must fail.
func (w *World) simpleFault(op *Op, f *Fault, mut bool) syscall.Errno {
	if f == nil {
		return 0
	}
	switch f.Kind {
	case "kill":
		w.kill(op, f)
	case "fail":
		w.fired(op, f)
		e := faultErrno(f)
		op.Err = ErrnoName(e)
		op.Mut = mut
		return e
	}
	return 0
}

func (w *World) touch(n *Inode) {
	w.tick++
	n.Mtime = w.tick
}

// ---------------------------------------------------------------------------
// FileInfo

type FileStat struct {
	name  string
	size  int64
	mode  fs.FileMode
	mtime int64
	Ino   uint64
	Nlink int
}

func (s *FileStat) Name() string       { return s.name }
func (s *FileStat) Size() int64        { return s.size }
func (s *FileStat) Mode() fs.FileMode  { return s.mode }
func (s *FileStat) ModTime() time.Time { return time.Unix(baseTime+s.mtime, 0).UTC() }
func (s *FileStat) IsDir() bool        { return s.mode.IsDir() }
func (s *FileStat) Sys() interface{} {
	return &syscall.Stat_t{Ino: s.Ino, Nlink: uint64(s.Nlink), Size: s.size}
}

func statOf(name string, n *Inode) *FileStat {
	size := int64(len(n.Data))
	if n.Kind == KSymlink {
		size = int64(len(n.Target))
	}
	if n.Kind == KDir {
		size = 4096
	}
	return &FileStat{name: name, size: size, mode: n.Mode(), mtime: n.Mtime, Ino: n.Ino, Nlink: n.Nlink}
}

func baseName(p string) string {
	p = strings.TrimRight(p, "/")
	if p == "" {
		return "/"
	}
	if i := strings.LastIndex(p, "/"); i >= 0 {
		return p[i+1:]
	}
	return p
}

// Lstat / Stat.
func (w *World) Stat(name string, follow bool) (*FileStat, syscall.Errno) {
	w.enter()
	defer w.leave()
	opn := "lstat"
	if follow {
		opn = "stat"
	}
	op, f, ok := w.begin(opn, w.Abs(name))
	defer w.end(op)
	if !ok {
		return nil, syscall.EIO
	}
	if e := w.simpleFault(op, f, false); e != 0 {
		return nil, e
	}
	r, e := w.resolve(name, follow)
	if e != 0 {
		op.Err = ErrnoName(e)
		return nil, e
	}
	op.Ino = r.node.Ino
	return statOf(baseName(name), r.node), 0
}

// ---------------------------------------------------------------------------
// Handles

type Handle struct {
	id      int
	w       *World
	Name    string // as given to open
	abs     string
	node    *Inode
	flag    int
	pos     int64
	closed  bool
	stream  int // 0 = file, 1 = stdin, 2 = stdout, 3 = stderr
	armed   syscall.Errno
	eof     bool
	dirList []string
	dirPos  int
	dirInit bool
	wrote   bool
	nreads  int
}

const (
	O_RDONLY = syscall.O_RDONLY
	O_WRONLY = syscall.O_WRONLY
	O_RDWR   = syscall.O_RDWR
	O_APPEND = syscall.O_APPEND
	O_CREATE = syscall.O_CREAT
	O_EXCL   = syscall.O_EXCL
	O_SYNC   = syscall.O_SYNC
	O_TRUNC  = syscall.O_TRUNC
)

// StreamHandle returns the handle of a standard stream (1 stdin, 2 stdout, 3 stderr).
func (w *World) StreamHandle(which int) *Handle {
	names := map[int]string{1: "/dev/stdin", 2: "/dev/stdout", 3: "/dev/stderr"}
	return &Handle{w: w, Name: names[which], abs: names[which], stream: which}
}

func accMode(flag int) int { return flag & (O_RDONLY | O_WRONLY | O_RDWR) }

// OpenFile opens or creates a file.
func (w *World) OpenFile(name string, flag int, perm fs.FileMode) (*Handle, syscall.Errno) {
	w.enter()
	defer w.leave()
	abs := w.Abs(name)
	op, f, ok := w.begin("open", abs)
	defer w.end(op)
	op.Flags = flag
	mutIntent := flag&(O_CREATE|O_TRUNC) != 0
	if !ok {
		return nil, syscall.EIO
	}
	if e := w.simpleFault(op, f, mutIntent); e != 0 {
		return nil, e
	}
	// O_CREAT|O_EXCL does not follow a symlink in the last component
	follow := !(flag&O_CREATE != 0 && flag&O_EXCL != 0)
	r, e := w.resolve(name, follow)
	fail := func(e syscall.Errno) (*Handle, syscall.Errno) {
		op.Err = ErrnoName(e)
		return nil, e
	}
	if lim := w.Spec.Knobs.MaxOpenFiles; lim > 0 && w.openH >= lim {
		// the descriptor table of the process is full
		return fail(syscall.EMFILE)
	}
	wantW := accMode(flag) == O_WRONLY || accMode(flag) == O_RDWR
	wantR := accMode(flag) == O_RDONLY || accMode(flag) == O_RDWR
	if e == syscall.ENOENT && r.parent != nil && flag&O_CREATE != 0 {
		// a dangling symlink as last component is followed by open(O_CREAT);
		// resolve() reports ENOENT with parent of the *target* in that case
		if r.parent.Perm&0o200 == 0 {
			return fail(syscall.EACCES)
		}
		n := w.newInode(KFile, perm&0o777)
		r.parent.addChild(r.name, n)
		w.touch(r.parent)
		w.touch(n)
		op.Mut = true
		op.Ino = n.Ino
		w.nextH++
		op.H = w.nextH
		w.opened()
		return &Handle{id: w.nextH, w: w, Name: name, abs: abs, node: n, flag: flag}, 0
	}
	if e != 0 {
		return fail(e)
	}
	n := r.node
	op.Ino = n.Ino
	if flag&O_CREATE != 0 && flag&O_EXCL != 0 {
		return fail(syscall.EEXIST)
	}
	if n.Kind == KDir && (wantW || flag&O_TRUNC != 0) {
		return fail(syscall.EISDIR)
	}
	if n.Kind == KFifo {
		// opening a fifo with no peer would block forever; model as ENXIO-like failure
		return fail(syscall.ENXIO)
	}
	if wantR && n.Perm&0o400 == 0 {
		return fail(syscall.EACCES)
	}
	if wantW && n.Perm&0o200 == 0 {
		return fail(syscall.EACCES)
	}
	if flag&O_TRUNC != 0 && n.Kind == KFile && wantW {
		if len(n.Data) != 0 {
			n.Data = n.Data[:0:0]
		}
		w.touch(n)
		op.Mut = true
	}
	w.nextH++
	op.H = w.nextH
	w.opened()
	return &Handle{id: w.nextH, w: w, Name: name, abs: abs, node: n, flag: flag}, 0
}

func (w *World) opened() {
	w.openH++
	if w.openH > w.MaxOpenH {
		w.MaxOpenH = w.openH
	}
}

func (h *Handle) World() *World  { return h.w }
func (h *Handle) Node() *Inode   { return h.node }
func (h *Handle) Abs() string    { return h.abs }
func (h *Handle) IsStream() bool { return h.stream != 0 }

func (w *World) chunk(knob int, want int) int {
	switch {
	case knob > 0:
		if want > knob {
			return knob
		}
	case knob < 0:
		c := 1 + w.rng.Intn(-knob)
		if want > c {
			return c
		}
	}
	return want
}

// Read implements read(2) on a handle. It returns io.EOF as errno 0 with n==0
// and eof==true.
func (h *Handle) Read(b []byte) (n int, eof bool, errno syscall.Errno) {
	h.w.enter()
	defer h.w.leave()
	w := h.w
	name := "read"
	if h.stream == 1 {
		name = "stdin"
	}
	op, f, ok := w.begin(name, h.abs)
	op.H = h.id
	defer w.end(op)
	if !ok {
		return 0, false, syscall.EIO
	}
	if h.closed {
		op.Err = "EBADF"
		return 0, false, syscall.EBADF
	}
	if h.stream == 2 || h.stream == 3 {
		op.Err = "EBADF"
		return 0, false, syscall.EBADF
	}
	if h.stream == 0 {
		op.Ino = h.node.Ino
		if accMode(h.flag) == O_WRONLY {
			op.Err = "EBADF"
			return 0, false, syscall.EBADF
		}
		if h.node.Kind == KDir {
			op.Err = "EISDIR"
			return 0, false, syscall.EISDIR
		}
	}
	if h.armed != 0 {
		e := h.armed
		op.Err = ErrnoName(e)
		op.Fault = "fail"
		return 0, false, e
	}
	if h.eof {
		return 0, true, 0
	}
	var src []byte
	var pos int
	if h.stream == 1 {
		src = w.Spec.Stdin
		pos = w.stdinPos
	} else {
		src = h.node.Data
		pos = int(h.pos)
	}
	avail := 0
	if pos < len(src) {
		avail = len(src) - pos
	}
	want := len(b)
	if want > avail {
		want = avail
	}
	// short reads are delivered for the first reads of a handle only, so that a
	// large file still needs a bounded number of operations
	h.nreads++
	if h.nreads <= 40 {
		if h.stream == 1 {
			want = w.chunk(w.Spec.Knobs.StdinChunk, want)
		} else {
			want = w.chunk(w.Spec.Knobs.FileChunk, want)
		}
	}
	if f != nil {
		switch f.Kind {
		case "kill":
			w.kill(op, f)
		case "fail":
			w.fired(op, f)
			e := faultErrno(f)
			if f.Bytes > 0 && want > 0 {
				if want > f.Bytes {
					want = f.Bytes
				}
				h.armed = e
				// deliver the bytes now, the error on the next read
				break
			}
			op.Err = ErrnoName(e)
			return 0, false, e
		case "eof":
			w.fired(op, f)
			if f.Bytes > 0 && want > 0 {
				if want > f.Bytes {
					want = f.Bytes
				}
				h.eof = true
				break
			}
			h.eof = true
			return 0, true, 0
		}
	}
	if len(b) == 0 {
		return 0, false, 0
	}
	if want == 0 {
		if h.stream == 1 && w.Spec.Knobs.StdinBlocks {
			// a terminal (or a pipe whose writer never closes it): the read would
			// never return. The program is stuck here for good.
			op.Err = "BLOCKED"
			w.Frozen = true
			w.Blocked = true
			panic(Blocked{AtOp: op.Seq})
		}
		return 0, true, 0
	}
	copy(b, src[pos:pos+want])
	if h.stream == 1 {
		w.stdinPos += want
	} else {
		h.pos += int64(want)
	}
	op.N = want
	return want, false, 0
}

// Write implements write(2) (looping like os.File.Write: all or error).
func (h *Handle) Write(b []byte) (int, syscall.Errno) {
	h.w.enter()
	defer h.w.leave()
	w := h.w
	name := "write"
	switch h.stream {
	case 2:
		name = "stdout"
	case 3:
		name = "stderr"
	}
	op, f, ok := w.begin(name, h.abs)
	op.H = h.id
	defer w.end(op)
	if !ok {
		return 0, syscall.EIO
	}
	if h.closed || h.stream == 1 {
		op.Err = "EBADF"
		return 0, syscall.EBADF
	}
	if h.stream == 0 {
		op.Ino = h.node.Ino
		if accMode(h.flag) == O_RDONLY {
			op.Err = "EBADF"
			return 0, syscall.EBADF
		}
	}
	n := len(b)
	var ferr syscall.Errno
	var killAfter bool
	if f == nil && w.stickyErr != 0 && h.stream == 0 {
		f = &Fault{AtOp: op.Seq, Kind: "fail", Bytes: 0, Errno: ErrnoName(w.stickyErr)}
	}
	if f != nil {
		switch f.Kind {
		case "kill":
			if f.Bytes < 0 {
				w.kill(op, f)
			}
			if f.Bytes < n {
				n = f.Bytes
			}
			killAfter = true
		case "fail":
			w.fired(op, f)
			ferr = faultErrno(f)
			if f.Bytes < 0 {
				n = 0
			} else if f.Bytes < n {
				n = f.Bytes
			}
			if f.Sticky && h.stream == 0 {
				w.stickyErr = ferr
			}
		}
	}
	switch h.stream {
	case 2:
		w.Stdout = append(w.Stdout, b[:n]...)
	case 3:
		w.Stderr = append(w.Stderr, b[:n]...)
	default:
		if n > 0 || (ferr == 0 && !killAfter) {
			node := h.node
			if h.flag&O_APPEND != 0 {
				h.pos = int64(len(node.Data))
			}
			end := int(h.pos) + n
			if end > len(node.Data) {
				nd := make([]byte, end)
				copy(nd, node.Data)
				node.Data = nd
			}
			copy(node.Data[h.pos:], b[:n])
			h.pos += int64(n)
			if n > 0 {
				w.touch(node)
				op.Mut = true
			}
		}
		if ferr != 0 || killAfter {
			op.Mut = true
		}
	}
	op.N = n
	if killAfter {
		w.kill(op, f)
	}
	if ferr != 0 {
		op.Err = ErrnoName(ferr)
		return n, ferr
	}
	return n, 0
}

// Close closes the handle.
func (h *Handle) Close() syscall.Errno {
	h.w.enter()
	defer h.w.leave()
	w := h.w
	op, f, ok := w.begin("close", h.abs)
	op.H = h.id
	defer w.end(op)
	if !ok {
		return syscall.EIO
	}
	if h.closed {
		op.Err = "EBADF"
		return syscall.EBADF
	}
	if h.node != nil {
		op.Ino = h.node.Ino
	}
	h.closed = true
	if h.stream == 0 && w.openH > 0 {
		w.openH-- // the descriptor is released even when close reports an error
	}
	if e := w.simpleFault(op, f, false); e != 0 {
		return e
	}
	return 0
}

// Sync is fsync(2): a no-op in the process-crash model, but logged.
func (h *Handle) Sync() syscall.Errno {
	h.w.enter()
	defer h.w.leave()
	w := h.w
	op, f, ok := w.begin("sync", h.abs)
	op.H = h.id
	defer w.end(op)
	if !ok {
		return syscall.EIO
	}
	if h.closed {
		op.Err = "EBADF"
		return syscall.EBADF
	}
	if e := w.simpleFault(op, f, false); e != 0 {
		return e
	}
	return 0
}

// Seek implements lseek(2).
func (h *Handle) Seek(off int64, whence int) (int64, syscall.Errno) {
	h.w.enter()
	defer h.w.leave()
	if h.closed || h.stream != 0 {
		return 0, syscall.ESPIPE
	}
	var base int64
	switch whence {
	case io.SeekStart:
	case io.SeekCurrent:
		base = h.pos
	case io.SeekEnd:
		base = int64(len(h.node.Data))
	default:
		return 0, syscall.EINVAL
	}
	if base+off < 0 {
		return 0, syscall.EINVAL
	}
	h.pos = base + off
	return h.pos, 0
}

// Fstat.
func (h *Handle) Stat() (*FileStat, syscall.Errno) {
	h.w.enter()
	defer h.w.leave()
	w := h.w
	op, f, ok := w.begin("fstat", h.abs)
	op.H = h.id
	defer w.end(op)
	if !ok {
		return nil, syscall.EIO
	}
	if h.closed {
		op.Err = "EBADF"
		return nil, syscall.EBADF
	}
	if e := w.simpleFault(op, f, false); e != 0 {
		return nil, e
	}
	if h.stream != 0 {
		return &FileStat{name: baseName(h.Name), mode: fs.ModeCharDevice | fs.ModeDevice | 0o620}, 0
	}
	op.Ino = h.node.Ino
	return statOf(baseName(h.Name), h.node), 0
}

// Truncate implements ftruncate(2).
func (h *Handle) Truncate(size int64) syscall.Errno {
	h.w.enter()
	defer h.w.leave()
	w := h.w
	op, f, ok := w.begin("ftruncate", h.abs)
	op.H = h.id
	defer w.end(op)
	if !ok {
		return syscall.EIO
	}
	if h.closed || h.stream != 0 || accMode(h.flag) == O_RDONLY {
		op.Err = "EINVAL"
		return syscall.EINVAL
	}
	op.Ino = h.node.Ino
	if e := w.simpleFault(op, f, true); e != 0 {
		return e
	}
	w.truncNode(h.node, size)
	op.Mut = true
	return 0
}

func (w *World) truncNode(n *Inode, size int64) {
	if int(size) <= len(n.Data) {
		n.Data = n.Data[:size:size]
	} else {
		nd := make([]byte, size)
		copy(nd, n.Data)
		n.Data = nd
	}
	w.touch(n)
}

// Chmod implements fchmod(2).
func (h *Handle) Chmod(mode fs.FileMode) syscall.Errno {
	h.w.enter()
	defer h.w.leave()
	w := h.w
	op, f, ok := w.begin("fchmod", h.abs)
	op.H = h.id
	defer w.end(op)
	if !ok {
		return syscall.EIO
	}
	if h.closed || h.stream != 0 {
		op.Err = "EBADF"
		return syscall.EBADF
	}
	op.Ino = h.node.Ino
	if e := w.simpleFault(op, f, true); e != 0 {
		return e
	}
	if h.node.Perm != mode&0o7777 {
		h.node.Perm = mode & 0o7777
		op.Mut = true
	}
	return 0
}

// DirEntryInfo is one directory entry.
type DirEntryInfo struct {
	Name string
	Node *Inode
}

// ReadDirNames reads up to n names (all if n<=0) in directory order.
func (h *Handle) ReadDirNames(n int) ([]DirEntryInfo, bool, syscall.Errno) {
	h.w.enter()
	defer h.w.leave()
	w := h.w
	op, f, ok := w.begin("readdir", h.abs)
	op.H = h.id
	defer w.end(op)
	if !ok {
		return nil, false, syscall.EIO
	}
	if h.closed || h.stream != 0 {
		op.Err = "EBADF"
		return nil, false, syscall.EBADF
	}
	op.Ino = h.node.Ino
	if h.node.Kind != KDir {
		op.Err = "ENOTDIR"
		return nil, false, syscall.ENOTDIR
	}
	if e := w.simpleFault(op, f, false); e != 0 {
		return nil, false, e
	}
	if !h.dirInit {
		h.dirInit = true
		h.dirList = append([]string(nil), h.node.Order...)
		if w.Spec.Knobs.ShuffleReaddir {
			p := w.rng.Perm(len(h.dirList))
			sh := make([]string, len(h.dirList))
			for i, j := range p {
				sh[i] = h.dirList[j]
			}
			h.dirList = sh
		}
	}
	var out []DirEntryInfo
	for h.dirPos < len(h.dirList) && (n <= 0 || len(out) < n) {
		name := h.dirList[h.dirPos]
		h.dirPos++
		if c := h.node.Children[name]; c != nil {
			out = append(out, DirEntryInfo{Name: name, Node: c})
		}
	}
	op.N = len(out)
	atEOF := h.dirPos >= len(h.dirList)
	return out, atEOF, 0
}

// StatEntry builds a FileStat for a directory entry (an lstat without a log entry
// is not available to programs; callers that need one must call Stat).
func StatEntry(e DirEntryInfo) *FileStat { return statOf(e.Name, e.Node) }

// ---------------------------------------------------------------------------
// path-level mutating operations

func (w *World) Mkdir(name string, perm fs.FileMode) syscall.Errno {
	w.enter()
	defer w.leave()
	op, f, ok := w.begin("mkdir", w.Abs(name))
	defer w.end(op)
	if !ok {
		return syscall.EIO
	}
	if e := w.simpleFault(op, f, true); e != 0 {
		return e
	}
	r, e := w.resolve(strings.TrimRight(name, "/")+"", false)
	if e == 0 {
		op.Err = "EEXIST"
		return syscall.EEXIST
	}
	if e != syscall.ENOENT || r.parent == nil {
		op.Err = ErrnoName(e)
		return e
	}
	if r.parent.Perm&0o200 == 0 {
		op.Err = "EACCES"
		return syscall.EACCES
	}
	n := w.newInode(KDir, perm&0o777)
	r.parent.addChild(r.name, n)
	r.parent.Nlink++
	w.touch(r.parent)
	w.touch(n)
	op.Mut = true
	op.Ino = n.Ino
	return 0
}

func (w *World) Remove(name string) syscall.Errno {
	w.enter()
	defer w.leave()
	op, f, ok := w.begin("remove", w.Abs(name))
	defer w.end(op)
	if !ok {
		return syscall.EIO
	}
	if e := w.simpleFault(op, f, true); e != 0 {
		return e
	}
	r, e := w.resolve(name, false)
	if e != 0 {
		op.Err = ErrnoName(e)
		return e
	}
	if r.parent == nil {
		op.Err = "EBUSY"
		return syscall.EBUSY
	}
	op.Ino = r.node.Ino
	if r.parent.Perm&0o200 == 0 {
		op.Err = "EACCES"
		return syscall.EACCES
	}
	if r.node.Kind == KDir {
		if len(r.node.Children) != 0 {
			op.Err = "ENOTEMPTY"
			return syscall.ENOTEMPTY
		}
		r.parent.Nlink--
	}
	r.parent.delChild(r.name)
	r.node.Nlink--
	w.touch(r.parent)
	op.Mut = true
	return 0
}

func isAncestor(a, b *Inode) bool {
	if a == b {
		return true
	}
	if a.Kind != KDir {
		return false
	}
	for _, c := range a.Children {
		if c.Kind == KDir && isAncestor(c, b) {
			return true
		}
	}
	return false
}

func (w *World) Rename(oldp, newp string) syscall.Errno {
	w.enter()
	defer w.leave()
	op, f, ok := w.begin("rename", w.Abs(oldp))
	defer w.end(op)
	op.Path2 = w.Abs(newp)
	if !ok {
		return syscall.EIO
	}
	if e := w.simpleFault(op, f, true); e != 0 {
		return e
	}
	// the kernel resolves both parent directories before it looks up the last
	// component of the old name
	lastOnly := func(e syscall.Errno, r resolved) bool {
		return (e == syscall.ENOENT || e == syscall.ENAMETOOLONG) && r.parent != nil
	}
	ro, e := w.resolve(oldp, false)
	if e != 0 && !lastOnly(e, ro) {
		op.Err = ErrnoName(e)
		return e
	}
	rn, e2 := w.resolve(newp, false)
	if e2 != 0 && !lastOnly(e2, rn) {
		op.Err = ErrnoName(e2)
		return e2
	}
	if e != 0 {
		op.Err = ErrnoName(e)
		return e
	}
	if e2 == syscall.ENAMETOOLONG {
		op.Err = ErrnoName(e2)
		return e2
	}
	op.Ino = ro.node.Ino
	if ro.parent == nil {
		op.Err = "EBUSY"
		return syscall.EBUSY
	}
	if ro.parent.Perm&0o200 == 0 || rn.parent == nil || rn.parent.Perm&0o200 == 0 {
		op.Err = "EACCES"
		return syscall.EACCES
	}
	if ro.node.Kind == KDir && isAncestor(ro.node, rn.parent) {
		op.Err = "EINVAL"
		return syscall.EINVAL
	}
	if rn.node != nil {
		if rn.node == ro.node {
			return 0
		}
		if ro.node.Kind == KDir {
			if rn.node.Kind != KDir {
				op.Err = "ENOTDIR"
				return syscall.ENOTDIR
			}
			if len(rn.node.Children) != 0 {
				op.Err = "ENOTEMPTY"
				return syscall.ENOTEMPTY
			}
			rn.parent.Nlink--
		} else if rn.node.Kind == KDir {
			op.Err = "EISDIR"
			return syscall.EISDIR
		}
		rn.node.Nlink--
		rn.parent.delChild(rn.name)
	}
	ro.parent.delChild(ro.name)
	rn.parent.addChild(rn.name, ro.node)
	if ro.node.Kind == KDir {
		ro.parent.Nlink--
		rn.parent.Nlink++
	}
	w.touch(ro.parent)
	w.touch(rn.parent)
	op.Mut = true
	return 0
}

func (w *World) Symlink(target, linkp string) syscall.Errno {
	w.enter()
	defer w.leave()
	op, f, ok := w.begin("symlink", w.Abs(linkp))
	defer w.end(op)
	op.Path2 = target
	if ok && len(target) >= 4096 {
		op.Err = "ENAMETOOLONG"
		return syscall.ENAMETOOLONG
	}
	if !ok {
		return syscall.EIO
	}
	if e := w.simpleFault(op, f, true); e != 0 {
		return e
	}
	r, e := w.resolve(linkp, false)
	if e == 0 {
		op.Err = "EEXIST"
		return syscall.EEXIST
	}
	if e != syscall.ENOENT || r.parent == nil {
		op.Err = ErrnoName(e)
		return e
	}
	if r.parent.Perm&0o200 == 0 {
		op.Err = "EACCES"
		return syscall.EACCES
	}
	n := w.newInode(KSymlink, 0o777)
	n.Target = target
	r.parent.addChild(r.name, n)
	w.touch(r.parent)
	w.touch(n)
	op.Mut = true
	op.Ino = n.Ino
	return 0
}

func (w *World) Link(oldp, newp string) syscall.Errno {
	w.enter()
	defer w.leave()
	op, f, ok := w.begin("link", w.Abs(oldp))
	defer w.end(op)
	op.Path2 = w.Abs(newp)
	if !ok {
		return syscall.EIO
	}
	if e := w.simpleFault(op, f, true); e != 0 {
		return e
	}
	ro, e := w.resolve(oldp, false)
	if e != 0 {
		op.Err = ErrnoName(e)
		return e
	}
	if ro.node.Kind == KDir {
		op.Err = "EPERM"
		return syscall.EPERM
	}
	rn, e2 := w.resolve(newp, false)
	if e2 == 0 {
		op.Err = "EEXIST"
		return syscall.EEXIST
	}
	if e2 != syscall.ENOENT || rn.parent == nil {
		op.Err = ErrnoName(e2)
		return e2
	}
	if rn.parent.Perm&0o200 == 0 {
		op.Err = "EACCES"
		return syscall.EACCES
	}
	rn.parent.addChild(rn.name, ro.node)
	ro.node.Nlink++
	w.touch(rn.parent)
	op.Mut = true
	op.Ino = ro.node.Ino
	return 0
}

func (w *World) Readlink(name string) (string, syscall.Errno) {
	w.enter()
	defer w.leave()
	op, f, ok := w.begin("readlink", w.Abs(name))
	defer w.end(op)
	if !ok {
		return "", syscall.EIO
	}
	if e := w.simpleFault(op, f, false); e != 0 {
		return "", e
	}
	r, e := w.resolve(name, false)
	if e != 0 {
		op.Err = ErrnoName(e)
		return "", e
	}
	if r.node.Kind != KSymlink {
		op.Err = "EINVAL"
		return "", syscall.EINVAL
	}
	op.Ino = r.node.Ino
	return r.node.Target, 0
}

func (w *World) Chmod(name string, mode fs.FileMode) syscall.Errno {
	w.enter()
	defer w.leave()
	op, f, ok := w.begin("chmod", w.Abs(name))
	defer w.end(op)
	if !ok {
		return syscall.EIO
	}
	if e := w.simpleFault(op, f, true); e != 0 {
		return e
	}
	r, e := w.resolve(name, true)
	if e != 0 {
		op.Err = ErrnoName(e)
		return e
	}
	op.Ino = r.node.Ino
	if r.node.Perm != mode&0o7777 {
		r.node.Perm = mode & 0o7777
		op.Mut = true
	}
	return 0
}

func (w *World) Chtimes(name string, mtime time.Time) syscall.Errno {
	w.enter()
	defer w.leave()
	op, f, ok := w.begin("chtimes", w.Abs(name))
	defer w.end(op)
	if !ok {
		return syscall.EIO
	}
	if e := w.simpleFault(op, f, true); e != 0 {
		return e
	}
	r, e := w.resolve(name, true)
	if e != 0 {
		op.Err = ErrnoName(e)
		return e
	}
	op.Ino = r.node.Ino
	nm := mtime.Unix() - baseTime
	if r.node.Mtime != nm {
		r.node.Mtime = nm
		op.Mut = true
	}
	return 0
}

func (w *World) Truncate(name string, size int64) syscall.Errno {
	w.enter()
	defer w.leave()
	op, f, ok := w.begin("truncate", w.Abs(name))
	defer w.end(op)
	if !ok {
		return syscall.EIO
	}
	if e := w.simpleFault(op, f, true); e != 0 {
		return e
	}
	r, e := w.resolve(name, true)
	if e != 0 {
		op.Err = ErrnoName(e)
		return e
	}
	op.Ino = r.node.Ino
	if r.node.Kind == KDir {
		op.Err = "EISDIR"
		return syscall.EISDIR
	}
	if r.node.Perm&0o200 == 0 {
		op.Err = "EACCES"
		return syscall.EACCES
	}
	w.truncNode(r.node, size)
	op.Mut = true
	return 0
}

func (w *World) Chdir(name string) syscall.Errno {
	w.enter()
	defer w.leave()
	op, f, ok := w.begin("chdir", w.Abs(name))
	defer w.end(op)
	if !ok {
		return syscall.EIO
	}
	if e := w.simpleFault(op, f, false); e != 0 {
		return e
	}
	r, e := w.resolve(name, true)
	if e != 0 {
		op.Err = ErrnoName(e)
		return e
	}
	if r.node.Kind != KDir {
		op.Err = "ENOTDIR"
		return syscall.ENOTDIR
	}
	w.Cwd = r.real
	return 0
}

func (w *World) Getwd() (string, syscall.Errno) {
	w.enter()
	defer w.leave()
	op, f, ok := w.begin("getwd", w.Cwd)
	defer w.end(op)
	if !ok {
		return "", syscall.EIO
	}
	if e := w.simpleFault(op, f, false); e != 0 {
		return "", e
	}
	return w.Cwd, 0
}

// DoExit records process exit and unwinds.
func (w *World) DoExit(code int) {
	w.enter()
	defer w.leave()
	// what the parent of a real process sees: the low eight bits
	code &= 0xff
	op, _, ok := w.begin("exit", "")
	op.N = code
	if ok {
		w.Exited = true
		w.ExitCode = code
	}
	panic(Exit{Code: code})
}

// RandName returns a pseudo-random suffix for temporary files.
func (w *World) RandName() string {
	w.enter()
	defer w.leave()
	return itoa(int(w.rng.Uint64() % 1_000_000_000))
}

// ---------------------------------------------------------------------------
// snapshots for oracles (no log entries)

// FileState is the observable state of one node.
type FileState struct {
	Path   string
	Kind   Kind
	Perm   fs.FileMode
	Data   []byte
	Target string
	Ino    uint64
	Mtime  int64
	Nlink  int
}

// Snapshot returns every node of the tree in path order.
func (w *World) Snapshot() []FileState {
	var out []FileState
	var rec func(p string, n *Inode)
	rec = func(p string, n *Inode) {
		fsn := FileState{Path: p, Kind: n.Kind, Perm: n.Perm, Target: n.Target, Ino: n.Ino, Mtime: n.Mtime, Nlink: n.Nlink}
		if n.Kind == KFile {
			fsn.Data = append([]byte(nil), n.Data...)
		}
		out = append(out, fsn)
		if n.Kind == KDir {
			names := make([]string, 0, len(n.Children))
			for k := range n.Children {
				names = append(names, k)
			}
			sort.Strings(names)
			for _, k := range names {
				cp := p + "/" + k
				if p == "/" {
					cp = "/" + k
				}
				rec(cp, n.Children[k])
			}
		}
	}
	rec("/", w.Root)
	return out
}

// RealPath resolves p like the kernel would (symbolic links in every component,
// and in the last one too if followLast) without logging, and returns the
// resolved absolute path together with the node ("" and nil if it does not
// resolve).
func (w *World) RealPath(p string, followLast bool) (string, *Inode) {
	w.enter()
	defer w.leave()
	r, e := w.resolve(p, followLast)
	if e != 0 || r.node == nil {
		return "", nil
	}
	return r.real, r.node
}

// Peek returns the node at an absolute path without logging (no symlink
// following on the last component).
func (w *World) Peek(p string) *Inode {
	r, e := w.resolve(p, false)
	if e != 0 {
		return nil
	}
	return r.node
}
