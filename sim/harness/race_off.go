//go:build !race

package harness

// RaceEnabled reports whether this binary was built with the race detector.
const RaceEnabled = false
