package harness

import (
	"time"

	"verif.local/sim/world"
)

// Reducer lets a check supply its own case reductions.
type Reducer interface {
	Reductions(c *Case) []*Case
}

// DefaultReductions proposes smaller variants of a CLI case.
func DefaultReductions(c *Case) []*Case {
	var out []*Case
	// drop faults
	for i := range c.Spec.Faults {
		d := c.Clone()
		d.Spec.Faults = append(d.Spec.Faults[:i:i], d.Spec.Faults[i+1:]...)
		out = append(out, d)
	}
	// drop files
	if len(c.Files) > 1 {
		for _, f := range c.Files {
			d := c.Clone()
			d.DropFile(f.Path)
			if len(d.Targets) == 0 {
				continue
			}
			d.RebuildArgs()
			out = append(out, d)
		}
	}
	// drop patches
	if len(c.Patches) > 1 {
		for i := range c.Patches {
			d := c.Clone()
			d.Patches = append(d.Patches[:i:i], d.Patches[i+1:]...)
			d.RebuildArgs()
			out = append(out, d)
		}
	}
	// clear flags
	fl := []func(f *Flags) bool{
		func(f *Flags) bool { b := f.Verbose; f.Verbose = false; return b },
		func(f *Flags) bool { b := f.SkipGen; f.SkipGen = false; return b },
		func(f *Flags) bool { b := f.SkipImport; f.SkipImport = false; return b },
		func(f *Flags) bool { b := f.Diff; f.Diff = false; return b },
		func(f *Flags) bool { b := f.Print; f.Print = false; return b },
	}
	for _, fn := range fl {
		d := c.Clone()
		if fn(&d.Flags) {
			d.RebuildArgs()
			out = append(out, d)
		}
	}
	// quieten knobs
	if c.Spec.Knobs.StdinChunk != 0 || c.Spec.Knobs.FileChunk != 0 || c.Spec.Knobs.ShuffleReaddir {
		d := c.Clone()
		d.Spec.Knobs = world.Knobs{Seed: c.Spec.Knobs.Seed}
		out = append(out, d)
	}
	// smaller byte offsets of faults
	for i, f := range c.Spec.Faults {
		if f.Bytes > 0 {
			for _, nb := range []int{0, f.Bytes / 2, f.Bytes - 1} {
				if nb != f.Bytes {
					d := c.Clone()
					d.Spec.Faults[i].Bytes = nb
					out = append(out, d)
				}
			}
		}
	}
	return out
}

// Minimise shrinks a failing case while the same violation class persists.
func Minimise(env *Env, chk Check, c *Case, v Violation) *Replay {
	quiet := &Env{Prog: env.Prog, Stats: NewStats(), Tier: env.Tier, Quiet: true}
	deadline := time.Now().Add(10 * time.Second)
	cur := c
	curV := v
	saved := caseHash
	defer func() { caseHash = saved }()
	reductions := DefaultReductions
	if rd, ok := chk.(Reducer); ok {
		reductions = rd.Reductions
	}
	changed := true
	minimised := false
	for changed && time.Now().Before(deadline) {
		changed = false
		for _, cand := range reductions(cur) {
			if time.Now().After(deadline) {
				break
			}
			vs := chk.Eval(quiet, cand)
			for _, w := range vs {
				if w.Signature == v.Signature {
					cur = cand
					curV = w
					changed = true
					minimised = true
					break
				}
			}
			if changed {
				break
			}
		}
	}
	curV.Prop = v.Prop
	return &Replay{Violation: curV, Case: cur, Minimised: minimised}
}
