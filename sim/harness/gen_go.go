package harness

import (
	"fmt"
	"strings"

	"verif.local/sim/world"
)

// ---------------------------------------------------------------------------
// Go source generator. Identifiers it invents never start with "vf"/"Vf", the
// prefix reserved for patch triggers, so "this file cannot match" is decidable
// from the bytes.

var neutralIdents = []string{"a", "b", "cfg", "ctx", "data", "err", "i", "idx", "item", "k", "n", "name", "out", "res", "s", "total", "v", "val", "w", "xs"}
var neutralFuncs = []string{"compute", "load", "store", "emit", "check", "wrap", "visit", "merge", "parse", "render"}
var neutralTypes = []string{"int", "string", "error", "[]byte", "map[string]int", "Config", "*Node", "func() error"}

// GenExpr returns a random expression.
func GenExpr(r *world.PRNG, depth int) string {
	if depth <= 0 {
		switch r.Intn(6) {
		case 0:
			return fmt.Sprint(r.Intn(100))
		case 1:
			return fmt.Sprintf("%q", r.Pick(neutralIdents))
		case 2:
			return r.Pick(neutralIdents)
		case 3:
			return r.Pick(neutralIdents) + "." + strings.Title(r.Pick(neutralIdents))
		case 4:
			return "nil"
		default:
			return r.Pick(neutralIdents) + "[" + fmt.Sprint(r.Intn(4)) + "]"
		}
	}
	switch r.Intn(9) {
	case 0:
		return GenExpr(r, depth-1) + " " + r.Pick([]string{"+", "-", "*", "==", "!=", "<", "&&", "||"}) + " " + GenExpr(r, depth-1)
	case 1:
		return r.Pick(neutralFuncs) + "(" + GenExpr(r, depth-1) + ")"
	case 2:
		return r.Pick(neutralFuncs) + "(" + GenExpr(r, depth-1) + ", " + GenExpr(r, depth-1) + ")"
	case 3:
		return "(" + GenExpr(r, depth-1) + ")"
	case 4:
		return "&Node{Val: " + GenExpr(r, depth-1) + "}"
	case 5:
		return "[]int{" + fmt.Sprint(r.Intn(9)) + ", " + fmt.Sprint(r.Intn(9)) + "}"
	case 6:
		return "func() int { return " + GenExpr(r, depth-1) + " }()"
	case 7:
		return "!" + r.Pick(neutralIdents)
	default:
		return GenExpr(r, depth-1)
	}
}

// GenStmt returns a random statement (possibly compound). inner supplies
// statements to embed in nested blocks (instances of patch patterns).
func GenStmt(r *world.PRNG, depth int, inner func() string) string {
	body := func() string {
		n := r.Range(0, 2)
		var sb strings.Builder
		for i := 0; i < n; i++ {
			sb.WriteString(GenStmt(r, depth-1, inner))
			sb.WriteString("\n")
		}
		if inner != nil && r.Chance(1, 2) {
			sb.WriteString(inner())
			sb.WriteString("\n")
		}
		return sb.String()
	}
	if depth <= 0 {
		switch r.Intn(7) {
		case 0:
			return r.Pick(neutralIdents) + " := " + GenExpr(r, 1)
		case 1:
			return r.Pick(neutralFuncs) + "(" + GenExpr(r, 1) + ")"
		case 2:
			return "_ = " + GenExpr(r, 2)
		case 3:
			return r.Pick(neutralIdents) + "++"
		case 4:
			return "var " + r.Pick(neutralIdents) + " " + r.Pick(neutralTypes)
		case 5:
			return "// " + r.Pick([]string{"TODO: revisit", "note the ordering here", "keep in sync", "see issue"})
		default:
			return "defer " + r.Pick(neutralFuncs) + "(" + GenExpr(r, 0) + ")"
		}
	}
	switch r.Intn(9) {
	case 0:
		return "if (" + GenExpr(r, 1) + ") {\n" + body() + "}"
	case 1:
		return "if " + r.Pick(neutralIdents) + " := " + GenExpr(r, 1) + "; (" + GenExpr(r, 0) + ") != nil {\n" + body() + "} else {\n" + body() + "}"
	case 2:
		return "for " + r.Pick(neutralIdents) + " := 0; " + r.Pick(neutralIdents) + " < 10; " + r.Pick(neutralIdents) + "++ {\n" + body() + "}"
	case 3:
		return "for _, " + r.Pick(neutralIdents) + " := range " + r.Pick(neutralIdents) + " {\n" + body() + "}"
	case 4:
		return "switch " + r.Pick(neutralIdents) + " {\ncase 1:\n" + body() + "case 2, 3:\n" + body() + "default:\n" + body() + "}"
	case 5:
		return "go func() {\n" + body() + "}()"
	case 6:
		return "select {\ncase <-" + r.Pick(neutralIdents) + ":\n" + body() + "default:\n}"
	case 7:
		return "{\n" + body() + "}"
	default:
		return GenStmt(r, 0, inner)
	}
}

// GoFileOpts controls generation of a Go source file.
type GoFileOpts struct {
	Pkg     string
	Header  string   // text placed before the package clause (comments, build tags)
	PkgDoc  string   // comment directly attached to the package clause
	Imports []string // import paths (quoted form added by the generator), may include `name "path"`
	Funcs   int
	Stmts   []string // statements that must appear (instances of patch patterns)
	Decls   []string // top-level declarations that must appear
	Style   string   // canonical | crlf | nofinalnl | spaces | blanklines | trailingws | oneline
}

// GenGoFile builds a parseable Go file.
func GenGoFile(r *world.PRNG, o GoFileOpts) []byte {
	var sb strings.Builder
	sb.WriteString(o.Header)
	sb.WriteString(o.PkgDoc)
	pkg := o.Pkg
	if pkg == "" {
		pkg = "sample"
	}
	sb.WriteString("package " + pkg + "\n\n")
	if len(o.Imports) == 1 && r.Chance(1, 2) {
		sb.WriteString("import " + quoteImp(o.Imports[0]) + "\n\n")
	} else if len(o.Imports) > 0 {
		sb.WriteString("import (\n")
		for _, im := range o.Imports {
			sb.WriteString("\t" + quoteImp(im) + "\n")
		}
		sb.WriteString(")\n\n")
	}
	if r.Chance(1, 2) {
		sb.WriteString("// Node is a tree node.\ntype Node struct {\n\tVal  interface{}\n\tNext *Node // next sibling\n}\n\n")
	}
	if r.Chance(1, 3) {
		sb.WriteString("const (\n\tlimit = 10\n\tlabel = \"x\" // trailing\n)\n\n")
	}
	nf := o.Funcs
	if nf <= 0 {
		nf = 1
	}
	// distribute required statements over functions
	per := make([][]string, nf)
	for i, s := range o.Stmts {
		k := r.Intn(nf)
		_ = i
		per[k] = append(per[k], s)
	}
	for i := 0; i < nf; i++ {
		if r.Chance(1, 2) {
			sb.WriteString("// " + r.Pick(neutralFuncs) + fmt.Sprint(i) + " does things.\n")
		}
		recv := ""
		if r.Chance(1, 4) {
			recv = "(n *Node) "
		}
		ret := ""
		if r.Chance(1, 3) {
			ret = " error"
		}
		sb.WriteString(fmt.Sprintf("func %s%s%d(%s %s)%s {\n", recv, r.Pick(neutralFuncs), i, r.Pick(neutralIdents), r.Pick(neutralTypes), ret))
		pending := per[i]
		nst := r.Range(1, 4)
		for j := 0; j < nst; j++ {
			var inner func() string
			if len(pending) > 0 && r.Chance(1, 2) {
				p := pending[0]
				pending = pending[1:]
				used := false
				inner = func() string {
					if used {
						return "_ = 0"
					}
					used = true
					return p
				}
				st := GenStmt(r, 2, inner)
				sb.WriteString(st + "\n")
				if !used {
					sb.WriteString(p + "\n")
				}
				continue
			}
			sb.WriteString(GenStmt(r, r.Range(0, 2), nil) + "\n")
		}
		for _, p := range pending {
			sb.WriteString(p + "\n")
		}
		if ret != "" {
			sb.WriteString("return nil\n")
		}
		sb.WriteString("}\n\n")
	}
	for _, d := range o.Decls {
		sb.WriteString(d + "\n\n")
	}
	src := sb.String()
	return ApplyStyle(r, indent(src), o.Style)
}

func quoteImp(s string) string {
	if strings.Contains(s, "\"") {
		return s
	}
	return "\"" + s + "\""
}

// indent gives the generated text gofmt-like indentation (cosmetic only).
func indent(src string) string {
	var out strings.Builder
	depth := 0
	for _, line := range strings.Split(src, "\n") {
		t := strings.TrimSpace(line)
		if t == "" {
			out.WriteString("\n")
			continue
		}
		d := depth
		if strings.HasPrefix(t, "}") || strings.HasPrefix(t, ")") {
			d--
		}
		if strings.HasPrefix(t, "case ") || strings.HasPrefix(t, "default:") {
			d--
		}
		if d < 0 {
			d = 0
		}
		out.WriteString(strings.Repeat("\t", d) + t + "\n")
		depth += strings.Count(t, "{") + strings.Count(t, "(") - strings.Count(t, "}") - strings.Count(t, ")")
		if depth < 0 {
			depth = 0
		}
	}
	s := out.String()
	// collapse the double newline at the end
	for strings.HasSuffix(s, "\n\n") {
		s = s[:len(s)-1]
	}
	return s
}

// Styles lists the non-canonical layouts.
var Styles = func() []string {
	// the styles with a 70 KB line are expensive to simulate: one draw in twelve
	var out []string
	for i := 0; i < 4; i++ {
		out = append(out, "canonical", "crlf", "nofinalnl", "spaces", "blanklines", "trailingws", "bom", "semis", "trailingblank")
	}
	return append(out, "hugeheader", "hugeline", "crlf-hugeline")
}()

// a line longer than the 64 KiB default token limit of bufio.Scanner
var hugeComment = "// " + strings.Repeat("lorem ipsum dolor sit amet ", 2600)

// ApplyStyle rewrites layout without changing the token stream.
func ApplyStyle(r *world.PRNG, src, style string) []byte {
	switch style {
	case "crlf":
		src = strings.ReplaceAll(src, "\n", "\r\n")
	case "nofinalnl":
		src = strings.TrimRight(src, "\n")
	case "spaces":
		src = strings.ReplaceAll(src, "\t", "   ")
	case "blanklines":
		src = strings.ReplaceAll(src, "{\n", "{\n\n\n")
	case "trailingws":
		src = strings.ReplaceAll(src, "{\n", "{   \t\n")
	case "bom":
		src = "\xef\xbb\xbf" + src
	case "trailingblank":
		// empty lines after the last line of code
		src = strings.TrimRight(src, "\n") + "\n\n\n"
	case "hugeheader":
		// one very long comment line before the package clause
		src = hugeComment + "\n\n" + src
	case "hugeline", "crlf-hugeline":
		// one very long comment line after the first function's opening brace
		if i := strings.Index(src, "{\n"); i >= 0 {
			src = src[:i+2] + hugeComment + "\n" + src[i+2:]
		}
		if style == "crlf-hugeline" {
			src = strings.ReplaceAll(src, "\n", "\r\n")
		}
	case "semis":
		// explicit semicolons after simple statements
		lines := strings.Split(src, "\n")
		for i, l := range lines {
			t := strings.TrimSpace(l)
			if strings.HasSuffix(t, "++") || strings.HasPrefix(t, "_ = ") {
				lines[i] = l + ";"
			}
		}
		src = strings.Join(lines, "\n")
	}
	return []byte(src)
}

// Headers that may precede the package clause (none of them marks generated code).
var plainHeaders = []string{
	"",
	"// Copyright (c) 2021 Example, Inc.\n//\n// Licensed under the MIT License.\n\n",
	"//go:build linux || darwin\n// +build linux darwin\n\n",
	"/*\n * Block comment licence.\n */\n\n",
	"// Package docs live elsewhere.\n\n//go:build !ignore\n\n",
	// positions of everything below are attributed to another file name and line
	"//line sample.y:1\n",
	"//line /gen/src/other.go:100\n\n",
	// prose in which a line happens to start with the word "package"
	"/*\nThis file is part of\npackage sample of the example tree, see the\npackage documentation in doc.go.\n*/\n\n",
	"/*\npackage sample holds examples.\n*/\n",
}
