package harness

// workerSelftest is filled in by selftest_impl.go once the fidelity tests exist.
func workerSelftest(p *Program, job *Job) {
	runSelftests(p, job)
}
