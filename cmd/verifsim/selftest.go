package main

import (
	"bufio"
	"bytes"
	"encoding/json"
	"fmt"
	"os"
	"os/exec"
	"path/filepath"
	"sort"
	"strings"
	"sync"
	"time"
)

// collectHashes runs one configuration and returns case index -> event-log hash.
func collectHashes(bin string, prop, tier string, seed uint64, cases, workers int, env []string) (map[int]string, error) {
	return collectHashesOnly(bin, prop, tier, seed, cases, workers, env, -1)
}

// collectHashesOnly is collectHashes restricted to one case of the sample (only >= 0).
func collectHashesOnly(bin string, prop, tier string, seed uint64, cases, workers int, env []string, only int) (map[int]string, error) {
	out := map[int]string{}
	var mu sync.Mutex
	var wg sync.WaitGroup
	var firstErr error
	for w := 0; w < workers; w++ {
		wg.Add(1)
		go func(w int) {
			defer wg.Done()
			job := Job{Mode: "run", Prop: prop, Tier: tier, Seed: seed, Worker: w, Workers: workers, From: 0, To: cases, Only: only, DumpLog: true, MaxViol: -1, Spread: true}
			js, _ := json.Marshal(job)
			cmd := exec.Command(bin, "-test.run", "^TestVerifWorker$", "-test.timeout", "0")
			cmd.Env = append(os.Environ(), "VERIF_JOB="+string(js))
			cmd.Env = append(cmd.Env, env...)
			pr, pw, _ := os.Pipe()
			cmd.ExtraFiles = []*os.File{pw}
			var eb bytes.Buffer
			cmd.Stderr = &eb
			cmd.Stdout = &eb
			if err := cmd.Start(); err != nil {
				mu.Lock()
				firstErr = err
				mu.Unlock()
				return
			}
			pw.Close()
			sc := bufio.NewScanner(pr)
			sc.Buffer(make([]byte, 1<<20), 256<<20)
			for sc.Scan() {
				var m Msg
				if json.Unmarshal(sc.Bytes(), &m) == nil && m.T == "log" {
					mu.Lock()
					out[m.I] = m.Hash
					mu.Unlock()
				}
			}
			if err := cmd.Wait(); err != nil {
				mu.Lock()
				firstErr = fmt.Errorf("worker: %v: %s", err, clip(eb.String(), 500))
				mu.Unlock()
			}
		}(w)
	}
	wg.Wait()
	return out, firstErr
}

var selftestCases = map[string]int{"C06": 400, "C07": 400, "C08": 3000, "C12": 150, "C14": 120, "C15": 300, "C16": 25, "C18": 300}

// selftestDeterminism: for each property the per-case event-log hash (op log,
// stream bytes, exit status, step count, final filesystem state, schedule and
// results) must be identical across repetitions, GOMAXPROCS values and worker
// counts.
func selftestDeterminism(props []string, seeds int) int {
	fails := 0
	for _, prop := range props {
		bi, err := build(prop, false)
		if err != nil {
			fatal2("build: %v", err)
		}
		bins := []struct {
			bin string
			env []string
		}{{bi.Bin, []string{"VERIF_REPO=" + repoRoot}}}
		if raceProps[prop] {
			rb, err := buildRace(prop)
			if err != nil {
				fatal2("race build: %v", err)
			}
			raceLog := filepath.Join(verifRoot, "build", prop+"-race", "racelog-selftest")
			bins = append(bins, struct {
				bin string
				env []string
			}{rb.Bin, []string{"VERIF_REPO=" + repoRoot, "VERIF_NO_RLIMIT=1", "VERIF_RACE_LOG=" + raceLog, "GORACE=log_path=" + raceLog + " halt_on_error=0", "VERIF_SITES=" + filepath.Join(verifRoot, "build", prop+"-race", "sites.json")}})
		}
		cases := selftestCases[prop]
		total, diverged := 0, 0
		start := time.Now()
		for s := 0; s < seeds; s++ {
			seed := uint64(1000 + 7919*s)
			for _, b := range bins {
				type cfg struct {
					workers int
					gmp     string
				}
				cfgs := []cfg{{1, "1"}, {1, "4"}, {1, "16"}, {3, "2"}, {3, "16"}, {1, "4"}}
				var ref map[int]string
				for ci, c := range cfgs {
					env := append(append([]string{}, b.env...), "GOMAXPROCS="+c.gmp)
					h, err := collectHashes(b.bin, prop, "quick", seed, cases, c.workers, env)
					if err != nil {
						fatal2("determinism selftest %s: %v", prop, err)
					}
					if ci == 0 {
						ref = h
						total += len(h)
						continue
					}
					var idx []int
					for i := range ref {
						idx = append(idx, i)
					}
					sort.Ints(idx)
					for _, i := range idx {
						if h[i] != ref[i] {
							diverged++
							if diverged <= 5 {
								fmt.Printf("DETERMINISM FAILURE property=%s seed=%d case=%d: hash %s (workers=1 GOMAXPROCS=1) vs %s (workers=%d GOMAXPROCS=%s)\n", prop, seed, i, ref[i], h[i], c.workers, c.gmp)
							}
						}
					}
				}
			}
		}
		fmt.Printf("determinism %s: %d cases x %d seeds x 6 configurations (GOMAXPROCS 1/4/16, 1 and 3 workers, repeated), %d divergent, %.1fs\n", prop, cases, seeds, diverged, time.Since(start).Seconds())
		if diverged > 0 || total == 0 {
			fails++
		}
	}
	return fails
}

func selftestFidelity() int {
	bi, err := build("selftest", false)
	if err != nil {
		fatal2("build: %v", err)
	}
	realBin := filepath.Join(verifRoot, "build", "selftest", "gopatch-real")
	cmd := exec.Command("go", "build", "-o", realBin, ".")
	cmd.Dir = repoRoot
	cmd.Env = goEnv()
	if out, err := cmd.CombinedOutput(); err != nil {
		fatal2("building the real binary: %v\n%s", err, out)
	}
	fails := 0
	for _, t := range []struct {
		name string
		n    int
	}{{"fidelity-fs", 4000}, {"fidelity-cli", 600}} {
		W := numWorkers()
		var wg sync.WaitGroup
		var mu sync.Mutex
		evals, distinct := 0, map[string]bool{}
		var msgs []string
		for w := 0; w < W; w++ {
			wg.Add(1)
			go func(w int) {
				defer wg.Done()
				r := runWorker(bi.Bin, Job{Mode: "selftest", Prop: t.name, Seed: defaultSeed(), Worker: w, Workers: W, To: t.n, Only: -1}, []string{"VERIF_REPO=" + repoRoot, "VERIF_REAL_BIN=" + realBin}, 300*time.Second)
				mu.Lock()
				defer mu.Unlock()
				if r.died || r.done == nil {
					msgs = append(msgs, "worker died: "+r.exitErr+" "+clip(r.stderr, 500))
					return
				}
				if r.done.Text != "" {
					msgs = append(msgs, r.done.Text)
				}
				if r.done.Stats != nil {
					evals += r.done.Stats.Evaluations
					for _, k := range r.done.Stats.DistinctKeys {
						distinct[k] = true
					}
				}
			}(w)
		}
		wg.Wait()
		fmt.Printf("%s: %d scripts/worlds compared against the real thing, %d distinct outcome classes, %d disagreements\n", t.name, evals, len(distinct), len(msgs))
		for _, m := range msgs {
			fmt.Println("FIDELITY FAILURE:", clip(m, 1500))
		}
		if len(msgs) > 0 || evals == 0 {
			fails++
		}
		os.WriteFile(filepath.Join(verifRoot, "build", "selftest", t.name+".txt"), []byte(fmt.Sprintf("%d compared, %d disagreements\n%s\n", evals, len(msgs), strings.Join(msgs, "\n"))), 0o644)
	}
	return fails
}
