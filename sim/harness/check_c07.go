package harness

import (
	"bytes"
	"fmt"
	"path"
	"strings"

	"verif.local/sim/world"
)

// C07 — Whatever gopatch emits on success is syntactically valid Go.
type c07 struct{}

func init() { Register(c07{}) }

func (c07) ID() string { return "C07" }

func (c07) NumCases(tier string) int {
	if tier == "thorough" {
		return 1_500_000
	}
	return 17_000
}

func (c07) Describe() CheckInfo {
	return CheckInfo{
		Level: "exploration",
		Rule: "emission monitor on every output seam (bytes left on disk by in-place mode, the per-file segment of --print-only, the unified diff of --diff applied to the original, the value returned by File.Apply) across all mode x flag combinations in multi-file runs. Workloads: (misfit) patches that compile but print unparseable Go when a metavariable is bound to a composite literal, at every position among ordinary files; (cross) every corpus patch against every corpus input; (template) generated patches against generated files. " +
			"Whether a patch CAN produce unparseable text is an input-space question and is only sampled by these families; what the simulation decides is that no unparseable text is emitted on any seam, and that a failed file is reported (exit != 0, named on stderr), left untouched and not emitted. distinct = distinct (family, patch, mode, flag set, position) tuples",
		Assumptions: []string{
			"go/parser (ParseFile, AllErrors) is the definition of 'parses as a Go source file'",
			"the outcome for a misfit file must be one of: emitted+parses+success, or not emitted+untouched+exit!=0+named; the check does not assume which (a smarter printer may make the text valid)",
		},
		RealCode:       []string{"gopatch main()/mainCmd.Run, patch.Parse/File.Apply, go/format, x/tools/imports, pkg/diff, internal/*"},
		Stubs:          []string{"package os (simulated filesystem, streams, exit)", "path/filepath walk", "io/ioutil"},
		RequiredProbes: []string{"misfit-in-place", "misfit-print", "misfit-diff", "misfit-skip-import", "misfit-api", "misfit-refused", "cross-emission-checked", "emission-in-place", "emission-print", "emission-diff", "emission-api", "multi-file", "large-file-emission", "identical-twins", "line-directive-subject", "same-change-fits-in-earlier-file", "misfit-then-failing-change"},
	}
}

func (c07) Gen(env *Env, seed uint64, tier string, i int) *Case {
	r := world.NewPRNG(world.Mix(seed, 7, uint64(i)))
	sub := []string{"misfit", "misfit", "cross", "template"}[i%4]
	if i%16 == 7 {
		// crash, then run again: what a later successful run leaves must parse
		c := NewCLICase("C07", "restart", i, seed)
		c16GenRestart(c, r)
		c.Extra["rng"] = fmt.Sprint(r.Uint64())
		c.Extra["family"] = "restart"
		c.RebuildArgs()
		return c
	}
	c := NewCLICase("C07", sub, i, seed)
	c.Flags = Flags{SkipImport: r.Chance(1, 2), SkipGen: r.Chance(1, 5), Verbose: r.Chance(1, 5)}
	switch r.Intn(3) {
	case 1:
		c.Flags.Diff = true
	case 2:
		c.Flags.Print = true
	}
	switch sub {
	case "misfit":
		m := Misfits[r.Intn(len(Misfits))]
		k := 40 + r.Intn(5)
		c.AddPatch("misfit.patch", r.Pick([]string{"p", "p", "stdin"}), []byte(m.Patch(k)), nil, []string{fmt.Sprintf("vfChk%d", k)})
		if r.Chance(1, 2) {
			// an ordinary second patch file
			pp := GenPatchPlan(r, 1, Templates[:5])
			for i := range c.Patches {
				if c.Patches[i].Via == "stdin" {
					c.Patches[i].Via = "p"
					c.Patches[i].Path = PatDir + "/misfit.patch"
					c.SetNode(world.NodeSpec{Path: c.Patches[i].Path, Kind: "file", Data: c.Patches[i].Data})
				}
			}
			c.AddPatch("p1.patch", "p", PatchText(pp.Files[0]), nil, nil)
			c.Extra["others"] = "1"
			n := r.Range(1, 2)
			for j := 0; j < n; j++ {
				c.AddFile(fmt.Sprintf("%s_o%d.go", r.Pick([]string{"a", "z"}), j), MatchingFile(r, pp.Files[0], "canonical", ""), "match", nil, "")
			}
		}
		hdr := ""
		if r.Chance(1, 3) {
			// goyacc/cgo style: diagnostics for this file carry another file name
			hdr = r.Pick([]string{"//line m_subject.y:1\n", "//line /gen/other.go:40\n\n", "// Produced by goyacc from parser.y.\n\n//line parser.y:2\n"})
			c.Extra["line_directive"] = "1"
		}
		stmts := []string{m.Stmt(k)}
		if r.Chance(1, 4) {
			// a later change matches the subject too and cannot be applied: the
			// run fails for the file AFTER the misfit change has been carried out
			for i := range c.Patches {
				if c.Patches[i].Via == "stdin" {
					c.Patches[i].Via = "p"
					c.Patches[i].Path = PatDir + "/misfit.patch"
					c.SetNode(world.NodeSpec{Path: c.Patches[i].Path, Kind: "file", Data: c.Patches[i].Data})
				}
			}
			c.AddPatch("zfail.patch", "p", []byte("@@\nvar x expression\n@@\n-vfOldE(x)\n+bar(func() { var x int })\n"), nil, []string{"vfOldE"})
			stmts = append(stmts, "vfOldE(1 + 2)")
			c.Extra["then_fails"] = "1"
		}
		src := GenValidGoFile(r, GoFileOpts{Funcs: r.Range(1, 2), Stmts: stmts, Header: hdr})
		c.AddFile("m_subject.go", src, "misfit", nil, m.Name)
		if r.Chance(1, 3) {
			// byte-identical copies of the failing file, adjacent in path order
			for j := 0; j < r.Range(1, 2); j++ {
				c.AddFile(fmt.Sprintf("m_subject_twin%d.go", j), src, "misfit-twin", nil, m.Name)
			}
			c.Extra["twins"] = "1"
		}
		if r.Chance(1, 3) {
			// the same change fits here (its metavariable is bound to a plain name):
			// a valid rewrite earlier in the run must not vouch for the subject
			fit := strings.NewReplacer("Node{}", "plainValue", "Node{Val: 1}", "plainValue").Replace(m.Stmt(k))
			c.AddFile(r.Pick([]string{"a_fits.go", "b_fits.go"}), GenValidGoFile(r, GoFileOpts{Funcs: 1, Stmts: []string{fit}}), "match", nil, "fits")
			c.Extra["fitting_neighbour"] = "1"
		}
		c.Extra["family"] = "misfit:" + m.Name
	case "cross":
		corpus := Corpus()
		if len(corpus) == 0 {
			return nil
		}
		pc := corpus[r.Intn(len(corpus))]
		ic := corpus[r.Intn(len(corpus))]
		if r.Chance(1, 2) {
			ic = pc
		}
		for j, p := range pc.Patches {
			c.AddPatch(fmt.Sprintf("c%d.patch", j), "p", p.Data, nil, nil)
		}
		in := ic.Inputs[r.Intn(len(ic.Inputs))]
		c.AddFile("m_subject.go", in.Data, "corpus", nil, pc.Name+" x "+ic.Name+"/"+in.Name)
		c.Extra["family"] = "cross"
	case "template":
		pp := GenPatchPlan(r, 2, Templates)
		pp.Install(c, r)
		n := r.Range(1, 3)
		for j := 0; j < n; j++ {
			style := "canonical"
			if r.Chance(1, 2) {
				style = r.Pick(Styles)
			}
			nm := fmt.Sprintf("t%d.go", j)
			if j == 0 {
				nm = "m_subject.go"
			}
			c.AddFile(nm, MatchingFile(r, pp.All(), style, r.Pick(plainHeaders)), "match", nil, style)
		}
		c.Extra["family"] = "template"
	}
	if sub == "template" && r.Chance(1, 6) {
		// make one file large: its output spans many I/O buffers
		f := c.Files[r.Intn(len(c.Files))]
		var filler strings.Builder
		for k := 0; k < 50+r.Intn(60); k++ {
			fmt.Fprintf(&filler, "\nfunc filler%d(a, b int) int {\n\tif a > b {\n\t\treturn a - b // %d\n\t}\n\treturn b - a\n}\n", k, k)
		}
		if d := c.NodeData(f.Path); bytes.HasSuffix(d, []byte("\n")) && !bytes.Contains(d, []byte("\r")) {
			c.SetNode(world.NodeSpec{Path: f.Path, Kind: "file", Data: append(append([]byte(nil), d...), filler.String()...)})
			c.Extra["large"] = "1"
		}
	}
	AddDecoys(c, r)
	if r.Chance(1, 2) {
		c.Targets = []string{"."}
	} else {
		for _, f := range c.Files {
			c.Targets = append(c.Targets, path.Base(f.Path))
		}
	}
	c.RebuildArgs()
	return c
}

// emissionFor extracts what the run emitted for file f ("" + false = nothing).
// others maps the remaining files to their solo print-only output.
func c07Emissions(c *Case, r *RunResult, init []world.FileState, soloPrint func(f FileMeta) []byte) (map[string][]byte, string) {
	em := map[string][]byte{}
	orig := goFiles(init)
	switch {
	case c.Flags.Diff:
		out := string(r.Stdout)
		if c.Flags.Verbose || c.Flags.Print {
			// keep only diff lines: drop -v log lines and echoed unmatched files is not
			// possible in general; restrict diff-mode emission checks to plain --diff
			return nil, "skip"
		}
		dfs, err := ParseUnified(out)
		if err != nil {
			return nil, "bad-diff: " + err.Error()
		}
		for _, df := range dfs {
			p := absTarget(df.Old)
			o, ok := orig[p]
			if !ok {
				continue
			}
			res, err := ApplyUnified(string(o.Data), df)
			if err != nil {
				return nil, "diff-does-not-apply: " + err.Error()
			}
			em[p] = []byte(res)
		}
	case c.Flags.Print:
		// remove the other files' (known, solo) output in path order; what is left is the subject's
		rest := r.Stdout
		if c.Flags.Verbose {
			// -v log lines are whole lines that begin with a target's path (or "generated file ")
			var kept [][]byte
			for _, line := range bytes.SplitAfter(rest, []byte("\n")) {
				isLog := false
				for _, f := range c.Files {
					if bytes.HasPrefix(line, []byte(f.Path+": ")) || bytes.HasPrefix(line, []byte("generated file "+f.Path)) {
						isLog = true
					}
				}
				if !isLog {
					kept = append(kept, line)
				}
			}
			rest = bytes.Join(kept, nil)
		}
		var subj *FileMeta
		sorted := c.SortedFiles()
		var before, after []byte
		seenSubj := false
		for i := range sorted {
			f := sorted[i]
			if path.Base(f.Path) == "m_subject.go" {
				subj = &sorted[i]
				seenSubj = true
				continue
			}
			if f.Role == "misfit-twin" {
				continue // sorts right after the subject: part of the same unknown region
			}
			sp := soloPrint(f)
			if sp == nil {
				return nil, "skip"
			}
			em[f.Path] = sp
			if !seenSubj {
				before = append(before, sp...)
			} else {
				after = append(after, sp...)
			}
		}
		if subj != nil {
			if !bytes.HasPrefix(rest, before) || !bytes.HasSuffix(rest[len(before):], after) {
				return nil, "skip"
			}
			seg := rest[len(before) : len(rest)-len(after)]
			if c.Flags.Verbose {
				// a log line glued to a segment that does not end in a newline
				for _, f := range c.Files {
					for _, sfx := range []string{": patched\n", ": skipped\n"} {
						seg = bytes.TrimSuffix(seg, []byte(f.Path+sfx))
					}
				}
			}
			if len(seg) > 0 {
				em[subj.Path] = seg
			}
		}
	default:
		fin := goFiles(r.Final)
		for p, o := range orig {
			if g, ok := fin[p]; ok && !bytes.Equal(g.Data, o.Data) {
				em[p] = g.Data
			}
		}
		for p, g := range fin {
			if _, ok := orig[p]; !ok {
				em[p] = g.Data
			}
		}
	}
	return em, ""
}

// c07Parses reports whether b is a valid Go file; with multi set, b may be the
// concatenation of several files' outputs (the subject and its twins), which is
// cut before every package clause that starts a line.
func c07Parses(b []byte, multi bool) error {
	err := ParsesAsGo(b)
	if err == nil || !multi {
		return err
	}
	var starts []int
	for i := 0; i+8 <= len(b); i++ {
		if (i == 0 || b[i-1] == '\n') && bytes.HasPrefix(b[i:], []byte("package ")) {
			starts = append(starts, i)
		}
	}
	if len(starts) < 2 {
		return err
	}
	// a line that starts with "package " may also sit inside a comment: cut at
	// the first boundary at which the piece so far is a complete file
	prev := 0
	for k := 1; k < len(starts); k++ {
		if starts[k] > prev && ParsesAsGo(b[prev:starts[k]]) == nil {
			prev = starts[k]
		}
	}
	return ParsesAsGo(b[prev:])
}

// c07Restart: run 1 is killed somewhere after its first mutation, run 2 (another
// patch with shorter output, or the same one) runs on what was left behind. If
// run 2 reports success, every Go file on disk parses.
func c07Restart(env *Env, c *Case) []Violation {
	var vs []Violation
	base := c.Spec.Clone()
	base.Faults = nil
	patchB := []byte(c.Extra["patch_b"])
	pbPath := PatDir + "/pb.patch"
	second := func(faults []world.Fault, variant string) {
		if len(vs) > 0 {
			return
		}
		spec1 := base.Clone()
		spec1.Faults = faults
		r1 := env.Run(spec1)
		if len(r1.Fired) == 0 || r1.Outcome != OutKilled {
			return
		}
		sp := base.Clone()
		sp.Faults = nil
		sp.Nodes = specFromState(r1.Final, nil)
		sp.Knobs.Seed = world.Mix(base.Knobs.Seed, 2)
		if variant == "other-patch" {
			sp.Nodes = append(sp.Nodes, world.NodeSpec{Path: pbPath, Kind: "file", Data: patchB})
			sp.Args = append(append(append([]string{}, c.Flags.Args()...), "-p", pbPath), c.Targets...)
		}
		r2 := env.Run(sp)
		if r2.Outcome != OutExit || r2.Exit != 0 {
			return
		}
		env.Probe("restart-second-run-succeeds")
		for p, g := range goFiles(r2.Final) {
			if err := ParsesAsGo(g.Data); err != nil {
				cc := c.Clone()
				cc.Spec.Faults = faults
				cc.Extra["variant"] = variant
				f0 := r1.Fired[0]
				vs = append(vs, Violation{Oracle: "unparseable-emission", Signature: "C07/unparseable-emission/in-place-after-interrupted-run", Case: cc,
					Detail: fmt.Sprintf("run 1 was killed at op %d (%s %s); run 2 (%s, args %v) exits 0 and %s holds content that does not parse (%v): %q", f0.Seq, f0.Name, f0.Path, variant, r2.W.Args, p, err, clip(string(g.Data), 200))})
				return
			}
		}
	}
	if len(c.Spec.Faults) > 0 {
		second(c.Spec.Faults, c.Extra["variant"])
		return vs
	}
	pilot := env.Run(base)
	if pilot.Outcome != OutExit || pilot.Exit != 0 {
		return nil
	}
	firstMut := len(pilot.Log)
	for k, o := range pilot.Log {
		if o.Mut {
			firstMut = k
			break
		}
	}
	for k, o := range pilot.Log {
		if k < firstMut || o.Name == "exit" || o.Name == "stderr" || o.Name == "stdout" {
			continue
		}
		second([]world.Fault{{AtOp: k, Kind: "kill", Bytes: -1}}, "other-patch")
		second([]world.Fault{{AtOp: k, Kind: "kill", Bytes: -1}}, "same-patch")
	}
	return vs
}

func (c07) Eval(env *Env, c *Case) []Violation {
	if c.Sub == "restart" {
		return c07Restart(env, c)
	}
	var vs []Violation
	mode := "in-place"
	if c.Flags.Diff {
		mode = "diff"
	} else if c.Flags.Print {
		mode = "print"
	}
	flags := ""
	if c.Flags.SkipImport {
		flags = "+skip-import-processing"
	}
	fam := c.Extra["family"]
	add := func(oracle, sig, detail string) {
		vs = append(vs, Violation{Oracle: oracle, Signature: "C07/" + oracle + "/" + sig, Detail: detail + fmt.Sprintf(" [%s, args %v]", fam, c.Spec.Args)})
	}
	init := c.InitialState()
	orig := goFiles(init)
	// the reference run is fault-free; a replayed case carries the one fault plan
	// that the fault families below then try
	baseSpec := c.Spec.Clone()
	baseSpec.Faults = nil
	r := env.Run(baseSpec)
	if r.Outcome != OutExit {
		env.Probe("run-did-not-exit")
		return nil
	}
	if len(c.Files) > 1 {
		env.Probe("multi-file")
	}
	if c.Extra["large"] == "1" {
		env.Probe("large-file-emission")
	}
	soloCache := map[string][]byte{}
	soloPrint := func(f FileMeta) []byte {
		if b, ok := soloCache[f.Path]; ok {
			return b
		}
		sc := c.Clone()
		for _, g := range c.Files {
			if g.Path != f.Path {
				sc.DropFile(g.Path)
			}
		}
		sc.Targets = []string{path.Base(f.Path)}
		sc.Flags.Print, sc.Flags.Diff, sc.Flags.Verbose = true, false, false
		sc.RebuildArgs()
		rr := RunCLI(env.Prog, sc.Spec)
		var out []byte
		if rr.Outcome == OutExit && rr.Exit == 0 {
			out = rr.Stdout
			if out == nil {
				out = []byte{}
			}
		}
		soloCache[f.Path] = out
		return out
	}
	em, note := c07Emissions(c, r, init, soloPrint)
	env.Seen(fmt.Sprintf("%s|%s|%s|%d|%v", fam, mode, c.Flags.String(), len(c.Files), c.Targets))
	if note != "" && note != "skip" {
		env.Probe("emission-extraction-failed")
	}
	// ---- every emission parses ------------------------------------------------
	for p, b := range em {
		env.Probe("emission-" + mode)
		if fam == "cross" {
			env.Probe("cross-emission-checked")
		}
		if err := c07Parses(b, c.Extra["twins"] == "1" && mode == "print"); err != nil {
			add("unparseable-emission", mode+flags, fmt.Sprintf("%s mode emitted content for %s that does not parse (%v), exit status %d: %q", mode, p, err, r.Exit, clip(string(b), 300)))
		}
	}
	if c.Extra["twins"] == "1" {
		env.Probe("identical-twins")
	}
	if c.Extra["fitting_neighbour"] == "1" {
		env.Probe("same-change-fits-in-earlier-file")
	}
	if c.Extra["line_directive"] == "1" {
		env.Probe("line-directive-subject")
	}
	// ---- a failed file is reported, untouched and not emitted ---------------------
	var subj *FileMeta
	for i := range c.Files {
		if path.Base(c.Files[i].Path) == "m_subject.go" {
			subj = &c.Files[i]
		}
	}
	misfitSupplied := false
	for _, p := range c.Patches {
		for _, t := range p.Triggers {
			if strings.HasPrefix(t, "vfChk") {
				misfitSupplied = true
			}
		}
	}
	if subj != nil && strings.HasPrefix(fam, "misfit") && note == "" && misfitSupplied {
		env.Probe("misfit-" + mode)
		if c.Extra["then_fails"] == "1" {
			env.Probe("misfit-then-failing-change")
		}
		if c.Flags.SkipImport {
			env.Probe("misfit-skip-import")
		}
		b, emitted := em[subj.Path]
		if emitted && bytes.Equal(b, orig[subj.Path].Data) {
			// --print-only echoing the original bytes of a file it could not
			// rewrite is not new content
			emitted = false
		}
		named := namesPath(c, string(r.Stderr), subj.Path)
		fin := goFiles(r.Final)
		untouched := bytes.Equal(fin[subj.Path].Data, orig[subj.Path].Data)
		switch {
		case emitted && ParsesAsGo(b) == nil && r.Exit == 0:
			// the printer produced valid text: fine
		case emitted && ParsesAsGo(b) != nil:
			// already reported above
		case !emitted && r.Exit != 0 && named && untouched:
			env.Probe("misfit-refused")
		case !emitted && r.Exit == 0:
			add("failure-not-reported", "exit-zero/"+mode+flags, fmt.Sprintf("the rewrite of %s produced no output and exit status is 0: the failure was swallowed; stderr %q", subj.Path, clip(string(r.Stderr), 300)))
		case !emitted && !named:
			add("failure-not-reported", "not-named/"+mode+flags, fmt.Sprintf("the rewrite of %s failed but stderr does not name it: %q", subj.Path, clip(string(r.Stderr), 300)))
		case !untouched && r.Exit != 0:
			add("failure-but-written", mode+flags, fmt.Sprintf("%s was modified although the run reports failure", subj.Path))
		case emitted && r.Exit != 0 && named:
			add("failure-but-emitted", mode+flags, fmt.Sprintf("gopatch reports an error for %s but still emitted content for it", subj.Path))
		}
	}
	// ---- in-place emission when the write itself goes wrong ---------------------------
	// A write that fails part-way, a close or rename that fails, a full disk: if
	// gopatch then still reports success, what it left on disk must parse.
	if mode == "in-place" && note == "" && (c.Idx%3 == 0 || len(c.Spec.Faults) > 0) {
		fr := world.NewPRNG(world.Mix(c.Seed, 707, uint64(c.Idx)))
		judgeFault := func(faults []world.Fault) {
			spec := c.Spec.Clone()
			spec.Faults = faults
			rf := env.Run(spec)
			if len(rf.Fired) == 0 || rf.Outcome != OutExit || rf.Exit != 0 {
				return // a reported failure is C16's subject
			}
			env.Probe("write-fault-then-success")
			for p, g := range goFiles(rf.Final) {
				o, ok := orig[p]
				if ok && bytes.Equal(o.Data, g.Data) {
					continue
				}
				if err := ParsesAsGo(g.Data); err != nil {
					cc := c.Clone()
					cc.Spec.Faults = faults
					f0 := rf.Fired[0]
					vs = append(vs, Violation{Oracle: "unparseable-emission", Signature: "C07/unparseable-emission/in-place-after-" + f0.Name + "-fault" + flags, Case: cc,
						Detail: fmt.Sprintf("after an injected failure of %s %s (%s, %d bytes let through) gopatch exits 0 and %s holds content that does not parse (%v): %q [%s, args %v]", f0.Name, f0.Path, f0.Err, f0.N, p, err, clip(string(g.Data), 200), fam, c.Spec.Args)})
					return
				}
			}
		}
		if len(c.Spec.Faults) > 0 {
			judgeFault(c.Spec.Faults)
		} else {
			wrote := wroteHandles(r.Log)
			n := 0
			for k, o := range r.Log {
				cl := opClass(o, wrote)
				if cl != "write" && cl != "close-w" && cl != "rename" && cl != "open-w" {
					continue
				}
				if n++; n > 16 {
					break
				}
				ens := c16Errnos[cl]
				f := world.Fault{AtOp: k, Kind: "fail", Errno: ens[fr.Intn(len(ens))]}
				if o.Name == "write" && o.N > 0 {
					f.Bytes = fr.Intn(o.N)
				}
				judgeFault([]world.Fault{f})
				if o.Name == "write" {
					f.Sticky = true
					judgeFault([]world.Fault{f})
				}
			}
		}
	}
	// ---- preview output when the stream fails ------------------------------------------
	// If the output stream fails at some byte and gopatch still reports success,
	// the output must nevertheless be complete (nothing was lost in a buffer).
	// (not with -v: the log lines share the stream, and a log line that cannot be
	// written is not an emission)
	if (mode == "print" || mode == "diff") && r.Exit == 0 && !c.Flags.Verbose && (c.Idx%3 == 1 || len(c.Spec.Faults) > 0) {
		fr := world.NewPRNG(world.Mix(c.Seed, 709, uint64(c.Idx)))
		judgeOut := func(faults []world.Fault) {
			spec := c.Spec.Clone()
			spec.Faults = faults
			rf := env.Run(spec)
			if len(rf.Fired) == 0 || rf.Outcome != OutExit || rf.Exit != 0 {
				return
			}
			env.Probe("stdout-fault-then-success")
			if !bytes.Equal(rf.Stdout, r.Stdout) {
				cc := c.Clone()
				cc.Spec.Faults = faults
				f0 := rf.Fired[0]
				vs = append(vs, Violation{Oracle: "unparseable-emission", Signature: "C07/unparseable-emission/" + mode + "-truncated-but-exit-0" + flags, Case: cc,
					Detail: fmt.Sprintf("writing the %s output failed (%s after %d bytes) and gopatch still exits 0: %d of %d bytes arrived [%s, args %v]", mode, f0.Err, f0.N, len(rf.Stdout), len(r.Stdout), fam, c.Spec.Args)})
			}
		}
		if len(c.Spec.Faults) > 0 {
			judgeOut(c.Spec.Faults)
		} else {
			n := 0
			for k, o := range r.Log {
				if o.Name != "stdout" || o.N == 0 {
					continue
				}
				if n++; n > 8 {
					break
				}
				judgeOut([]world.Fault{{AtOp: k, Kind: "fail", Errno: fr.Pick([]string{"EPIPE", "ENOSPC", "EAGAIN", "EINTR"}), Bytes: fr.Intn(o.N)}})
			}
		}
	}
	// ---- library API -------------------------------------------------------------
	if len(c.Patches) >= 1 {
		for _, p := range c.Patches {
			ap, _ := ParseAPI(env.Prog, "p.patch", p.Data)
			if ap == nil {
				continue
			}
			for _, f := range c.Files {
				ares := ApplyAPI(ap, path.Base(f.Path), orig[f.Path].Data)
				HashBytes([]byte(ares.Key()))
				if ares.Panic != "" || ares.NoProg || ares.IsErr {
					continue
				}
				env.Probe("emission-api")
				if f.Role == "misfit" {
					env.Probe("misfit-api")
				}
				if bytes.Equal(ares.Out, orig[f.Path].Data) {
					continue
				}
				if err := ParsesAsGo(ares.Out); err != nil {
					add("unparseable-emission", "api", fmt.Sprintf("File.Apply returned content for %s that does not parse (%v): %q", f.Path, err, clip(string(ares.Out), 300)))
				}
			}
		}
	}
	if !env.Quiet {
		env.Stats.Sample(map[string]interface{}{"family": fam, "args": c.Spec.Args, "exit": r.Exit, "emissions": len(em), "stderr": clip(string(r.Stderr), 160)}, 3)
	}
	return vs
}
