// Package simrt is the run-time half of the simulator that is linked into the
// instrumented copy of gopatch: step counting (bounded liveness), yield-site
// coverage and the deterministic scheduler for caller goroutines.
//
// Every function that can be reached from a goroutine the simulator does not
// own (the generator goroutine inside go-intervals calls back into
// instrumented code) is //go:norace and touches only plain words, so that the
// race detector neither reports the simulator's own bookkeeping nor derives
// happens-before edges from it.
package simrt

import (
	"runtime"
)

func getg() uintptr

// NoProgress is the panic value used to unwind a case whose step budget ran out.
type NoProgress struct {
	Steps uint64
	Site  uint32
}

const (
	modeOff    = 0
	modeSingle = 1
	modeSched  = 2
)

// NSites is set by the generated site table (see harness glue); it bounds the
// coverage bitmap.
const maxSites = 1 << 16

var (
	mode   int
	mainG  uintptr
	steps  uint64
	budget uint64
	cov    [maxSites / 64]uint64

	nextMark uint64
	spinInit bool
	spinFns  []uintptr // function entry points, outermost first, common to all samples

	// foreign counts Y calls made by goroutines the simulator does not own
	// (diagnostic only; not part of any deterministic log).
	foreign uint64
)

// Y is the yield/step point inserted by the instrumenter before every
// statement and at the top of every block of gopatch.
//
//go:norace
func Y(site uint32) {
	switch mode {
	case modeOff:
		return
	case modeSingle:
		if getg() != mainG {
			foreign++
			return
		}
		steps++
		cov[(site>>6)&(maxSites/64-1)] |= 1 << (site & 63)
		if recFirst && firstSeen[site&(maxSites-1)] == 0 {
			firstSeen[site&(maxSites-1)] = steps
		}
		if steps > nextMark {
			// The last spinWindow yields before exhaustion are sampled: the
			// frames (outermost first) that all of those stacks share
			// identify the function whose loop does not terminate,
			// independently of where in the loop the budget ran out.
			sampleSpin()
			if steps > budget {
				// make sure deferred code does not re-trigger immediately
				nextMark = ^uint64(0)
				panic(NoProgress{Steps: steps, Site: site})
			}
		}
	case modeSched:
		schedYield(site)
	}
}

// G identifies the calling goroutine (the address of its g).
//
//go:norace
func G() uintptr { return getg() }

// OnMain reports whether the calling goroutine is the one that BeginSingle was
// called on, i.e. the goroutine that runs gopatch's main.
//
//go:norace
func OnMain() bool { return mode != modeSingle || getg() == mainG }

// BeginSingle starts step accounting for the calling goroutine.
//
//go:norace
func BeginSingle(stepBudget uint64) {
	mainG = getg()
	steps = 0
	budget = stepBudget
	nextMark = stepBudget - spinWindow
	if stepBudget < spinWindow {
		nextMark = 0
	}
	spinInit = false
	spinFns = spinFns[:0]
	mode = modeSingle
}

var (
	recFirst  bool
	firstSeen [maxSites]uint64
)

// RecordFirst switches recording of the first step index at which each yield
// site is reached (used to choose pre-emption points uniformly over sites
// rather than over steps).
//
//go:norace
func RecordFirst(on bool) {
	recFirst = on
	if on {
		firstSeen = [maxSites]uint64{}
	}
}

// FirstSeen returns site -> first step index for the sites reached since RecordFirst(true).
//
//go:norace
func FirstSeen() map[uint32]uint64 {
	m := map[uint32]uint64{}
	for i, v := range firstSeen {
		if v != 0 {
			m[uint32(i)] = v
		}
	}
	return m
}

const spinWindow = 96

//go:norace
func sampleSpin() {
	var pcs [1024]uintptr
	n := runtime.Callers(2, pcs[:])
	cur := make([]uintptr, 0, n)
	for i := n - 1; i >= 0; i-- {
		if f := runtime.FuncForPC(pcs[i] - 1); f != nil {
			cur = append(cur, f.Entry())
		} else {
			cur = append(cur, 0)
		}
	}
	if !spinInit {
		spinInit = true
		spinFns = append(spinFns[:0], cur...)
		return
	}
	k := 0
	for k < len(spinFns) && k < len(cur) && spinFns[k] == cur[k] {
		k++
	}
	spinFns = spinFns[:k]
}

// SpinFunc returns the innermost function with the given name prefix that
// was on the stack, at the same depth, at every one of the last yields before
// the step budget ran out.
func SpinFunc(prefix string) string {
	last := ""
	count := map[string]int{}
	var names []string
	for _, e := range spinFns {
		if f := runtime.FuncForPC(e); f != nil {
			n := f.Name()
			if len(n) >= len(prefix) && n[:len(prefix)] == prefix {
				last = n
				count[n]++
				names = append(names, n)
			}
		}
	}
	// When the frames common to all samples contain a function more than once,
	// the work that does not end is a recursion (e.g. an exponential descent),
	// and the innermost common frame depends on where the budget ran out. The
	// outermost function that recurs is stable.
	for _, n := range names {
		if count[n] > 1 {
			return "recursion:" + n
		}
	}
	return last
}

// End stops accounting and returns the number of steps taken.
//
//go:norace
func End() uint64 {
	mode = modeOff
	s := steps
	return s
}

// Steps returns the current step count.
//
//go:norace
func Steps() uint64 { return steps }

// CoverageCount returns the number of distinct yield sites hit so far in this
// process.
//
//go:norace
func CoverageCount() int {
	n := 0
	for _, w := range cov {
		for ; w != 0; w &= w - 1 {
			n++
		}
	}
	return n
}

// CoverageWords returns a copy of the coverage bitmap.
//
//go:norace
func CoverageWords() []uint64 {
	out := make([]uint64, len(cov))
	copy(out, cov[:])
	return out
}

// ---------------------------------------------------------------------------
// Scheduler for caller goroutines (C14).
//
// Tasks are real goroutines. Exactly one task holds the turn. The word `turn`
// is read and written only inside //go:norace functions, and a parked task
// spins with runtime.Gosched(); nothing here creates a happens-before edge the
// race detector could see, so two tasks that touch the same variable without
// synchronisation of their own are still reported as a DATA RACE although the
// scheduler has physically serialised them.

// Switch is one context switch of a schedule.
type Switch struct {
	Yield uint64 `json:"y"` // global yield index at which the switch happened
	Site  uint32 `json:"s"`
	From  int    `json:"f"`
	To    int    `json:"t"`
}

// Policy decides, at a yield of the turn holder, which task runs next. All of
// its state lives here and is touched only by //go:norace code: the policy is
// consulted by whichever task holds the turn, and those accesses must not be
// visible to the race detector either.
type Policy struct {
	Kind     string // explicit | bernoulli | rr | preempt | pct
	Param    int
	Seed     uint64
	Est      uint64 // estimated total number of yields (pct)
	Switches []Switch

	rng  uint64
	idx  int
	prio [32]int
	cps  []uint64
}

//go:norace
func (p *Policy) rand() uint64 {
	p.rng += 0x9e3779b97f4a7c15
	z := p.rng
	z = (z ^ (z >> 30)) * 0xbf58476d1ce4e5b9
	z = (z ^ (z >> 27)) * 0x94d049bb133111eb
	return z ^ (z >> 31)
}

//go:norace
func (p *Policy) init() {
	p.rng = p.Seed
	p.idx = 0
	if p.Kind == "pct" {
		d := p.Param
		if d < 1 {
			d = 1
		}
		est := p.Est
		if est < 10 {
			est = 10
		}
		for i := range p.prio {
			p.prio[i] = d + 1 + int(p.rand()%1000)
		}
		p.cps = p.cps[:0]
		for i := 0; i < d; i++ {
			p.cps = append(p.cps, 1+p.rand()%est)
		}
	}
}

// next returns the task to run (may be cur). run lists the tasks that have
// started and not finished, in index order.
//
//go:norace
func (p *Policy) next(y uint64, site uint32, cur int, run []int) int {
	switch p.Kind {
	case "explicit":
		for p.idx < len(p.Switches) && p.Switches[p.idx].Yield < y {
			p.idx++
		}
		if p.idx < len(p.Switches) && p.Switches[p.idx].Yield == y {
			to := p.Switches[p.idx].To
			p.idx++
			return to
		}
		return cur
	case "bernoulli":
		q := p.Param
		if q < 1 {
			q = 1
		}
		if p.rand()%uint64(q) != 0 {
			return cur
		}
		return run[p.rand()%uint64(len(run))]
	case "rr":
		q := uint64(p.Param)
		if q < 1 {
			q = 1
		}
		if y%q != 0 {
			return cur
		}
		for i, t := range run {
			if t == cur {
				return run[(i+1)%len(run)]
			}
		}
		return run[0]
	case "preempt":
		if y == uint64(p.Param) && cur == 0 {
			for _, t := range run {
				if t != 0 {
					return t
				}
			}
		}
		return cur
	default: // pct
		for i, cp := range p.cps {
			if cp == y && cur < len(p.prio) {
				p.prio[cur] = len(p.cps) - i
			}
		}
		best := run[0]
		for _, t := range run {
			if t < len(p.prio) && p.prio[t] > p.prio[best] {
				best = t
			}
		}
		return best
	}
}

type task struct {
	g    uintptr
	done bool
	reg  bool
}

var (
	turn       int // index of the task that may run; -1 = coordinator
	tasks      []task
	policy     *Policy
	yieldNo    uint64
	switches   []Switch
	inCall     []bool // task is inside an operation of interest (set by harness)
	overlaps   uint64 // switches taken while >=2 tasks were mid-operation
	schedStop  bool
	finished   int
	schedBudg  uint64
	schedPanic interface{}
)

//go:norace
func curTask() int {
	g := getg()
	for i := range tasks {
		if tasks[i].g == g {
			return i
		}
	}
	return -1
}

//go:norace
func waitTurn(me int) {
	for turn != me {
		runtime.Gosched()
	}
}

//go:norace
func runnableList() []int {
	var r []int
	for i := range tasks {
		if tasks[i].g != 0 && !tasks[i].done {
			r = append(r, i)
		}
	}
	return r
}

//go:norace
func schedYield(site uint32) {
	me := curTask()
	if me < 0 {
		foreign++
		return
	}
	if turn != me {
		// cannot happen: only the turn holder executes instrumented code
		waitTurn(me)
	}
	yieldNo++
	steps++
	cov[(site>>6)&(maxSites/64-1)] |= 1 << (site & 63)
	if steps > schedBudg {
		schedBudg = ^uint64(0)
		panic(NoProgress{Steps: steps, Site: site})
	}
	r := runnableList()
	if len(r) <= 1 {
		return
	}
	next := policy.next(yieldNo, site, me, r)
	if next == me || next < 0 || next >= len(tasks) || tasks[next].g == 0 || tasks[next].done {
		return
	}
	n := 0
	for _, b := range inCall {
		if b {
			n++
		}
	}
	if n >= 2 {
		overlaps++
	}
	switches = append(switches, Switch{Yield: yieldNo, Site: site, From: me, To: next})
	turn = next
	waitTurn(me)
}

// SetInCall marks the calling task as being inside (or outside) an operation
// whose interleaving matters; used only for coverage accounting.
//
//go:norace
func SetInCall(in bool) {
	me := curTask()
	if me >= 0 && me < len(inCall) {
		inCall[me] = in
	}
}

// SchedResult is what RunTasks returns.
type SchedResult struct {
	Switches []Switch
	Yields   uint64
	Overlaps uint64
	Panics   []interface{} // per task, nil if none
	Stacks   []string
}

// RunTasks runs the given functions as tasks under the policy. Task 0 starts
// with the turn. It returns when every task has finished. A panic inside a
// task is recovered, recorded, and the task counts as finished.
//
// recoverFn, if non-nil, is called inside the task's deferred handler with the
// recovered value to obtain a stack trace string.
//
//go:norace
func RunTasks(fns []func(), pol *Policy, stepBudget uint64, stackFn func() string) SchedResult {
	n := len(fns)
	tasks = make([]task, n)
	inCall = make([]bool, n)
	policy = pol
	policy.init()
	yieldNo = 0
	steps = 0
	schedBudg = stepBudget
	switches = nil
	overlaps = 0
	finished = 0
	turn = -1
	res := SchedResult{Panics: make([]interface{}, n), Stacks: make([]string, n)}
	doneCount := 0
	started := make([]bool, n)
	_ = started
	mode = modeSched
	for i := range fns {
		i := i
		startTask(i, fns[i], &res, stackFn)
	}
	// wait until every goroutine has registered its g
	for loadRegistered() < n {
		runtime.Gosched()
	}
	turn = 0
	for loadFinished() < n {
		runtime.Gosched()
	}
	_ = doneCount
	mode = modeOff
	res.Switches = switches
	res.Yields = yieldNo
	res.Overlaps = overlaps
	return res
}

//go:norace
func loadFinished() int { return finished }

//go:norace
func loadRegistered() int {
	n := 0
	for i := range tasks {
		if tasks[i].reg {
			n++
		}
	}
	return n
}

//go:norace
func loadG(i int) uintptr { return tasks[i].g }

//go:norace
func loadDone(i int) bool { return tasks[i].done }

//go:norace
func startTask(i int, fn func(), res *SchedResult, stackFn func() string) {
	go taskBody(i, fn, res, stackFn)
}

//go:norace
func taskBody(i int, fn func(), res *SchedResult, stackFn func() string) {
	tasks[i].g = getg()
	tasks[i].reg = true
	waitTurn(i)
	defer taskExit(i, res, stackFn)
	fn()
}

//go:norace
func taskExit(i int, res *SchedResult, stackFn func() string) {
	if r := recover(); r != nil {
		res.Panics[i] = r
		if stackFn != nil {
			res.Stacks[i] = stackFn()
		}
	}
	inCall[i] = false
	tasks[i].done = true
	// the runtime recycles g structures: a goroutine started later (e.g. the
	// interval-set generator) must not be mistaken for this finished task
	tasks[i].g = 0
	finished++
	// hand the turn to the lowest runnable task, if any
	for j := range tasks {
		if tasks[j].g != 0 && !tasks[j].done {
			turn = j
			return
		}
	}
	turn = -1
}
