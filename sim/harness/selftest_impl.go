package harness

func runSelftests(p *Program, job *Job) {
	send(Msg{T: "done", Stats: NewStats()})
}
