package harness

import (
	"bytes"
	"encoding/json"
	"fmt"
	"os"
	"path"
	"regexp"
	"runtime/debug"
	"sort"
	"strings"

	"verif.local/sim/simrt"
	"verif.local/sim/world"
)

// C14 — Each file's result depends only on the patches and that file.
type c14 struct{}

func init() { Register(c14{}) }

func (c14) ID() string { return "C14" }

func (c14) NumCases(tier string) int {
	if tier == "thorough" {
		return 900_000
	}
	return 3_000
}

func (c14) Describe() CheckInfo {
	return CheckInfo{
		Level: "exploration",
		Rule: "three harnesses. (cli) worlds of 2-6 files of all kinds (matching with different bindings, non-matching, unparseable, generated, rewrite-error-provoking) are run grouped in every argument permutation (n<=4) or sampled permutations, as directory and as file arguments, with duplicates, in-place and --print-only, and each file alone in a world of its own: per file, final bytes, print-only segment and failure report must equal the solo run, and the grouped run repeated must give the identical event log. " +
			"(hist) one patch.Parse followed by a generated sequence of 2-12 Apply calls (including failing ones) against a fresh Parse per call. " +
			"(sched, -race binary) K=2..4 caller goroutines share one parsed patch and perform 1-3 Apply calls each, some with a concurrent patch.Parse; which goroutine runs is decided at every yield point by a seeded policy (PCT d=1..3, Bernoulli, round-robin, single pre-emption at a chosen yield); every call must equal its solo reference and the race detector must stay silent (the scheduler's hand-off is invisible to it, so physical serialisation does not hide unsynchronised sharing). " +
			"(cli, fault) the first grouped in-place run is repeated with one injected fault on an operation of some file's write path: at most the struck file may deviate from its solo result. " +
			"(clock, chance, process start) time and math/rand are simulated: the clock and the package-level generators of a run are a function of the world's seed and the argument vector, so solo and grouped runs see different values; and a sample of the cases (160 quick, 4000 thorough) is evaluated again by the coordinator in 4 (6) fresh worker processes that differ in start time, generator seed and GOMAXPROCS, where the per-case event-log hashes must be identical. " +
			"distinct = cli: (file-kind multiset, permutation, mode); hist: call-sequence shape; sched: schedule signature = hash of the executed switch list projected on (site, from, to), counted only when at least one switch happened while two tasks were inside Apply",
		Assumptions: []string{
			"the sequential specification of Apply is stateless, so per-operation equality with the solo reference is the complete history check (a linearizability checker would accept exactly the same histories)",
			"scheduling of the go-intervals generator goroutine inside Changelog.ChangedIntervals is left to the Go runtime (it only reads its own set); the event-log determinism self-test covers it",
			"a worker blocked forever (lock introduced under a parked owner) is reported as inconclusive by the watchdog, not as a violation",
		},
		RealCode:       []string{"gopatch main()/mainCmd.Run, patchRunner, patch.Parse/File.Apply, internal/engine (compiled program, dotAssoc maps), go/token.FileSet shared across files and calls"},
		Stubs:          []string{"package os", "path/filepath walk", "io/ioutil", "time (simulated clock)", "math/rand top-level functions (seeded by the harness)", "choice of which caller goroutine runs next (simrt scheduler)"},
		RequiredProbes: []string{"cli-grouped-vs-solo", "cli-permutation", "cli-unparseable-neighbour", "cli-repeat-identical", "hist-call", "hist-failing-call", "hist-result-held", "sched-run", "sched-overlap", "sched-preempt-sweep", "sched-concurrent-parse", "sched-pct", "sched-two-switch-site-uniform", "race-log-checked", "sched-same-filename", "cli-respelled-duplicate", "cli-module-root-in-tree", "cli-two-packages-in-one-directory", "cli-more-files-than-descriptors", "cli-neighbour-write-fault", "cli-special-imports-before-ungrouped", "cli-underscore-or-dot-named-file", "cli-more-than-five-hundred-files"},
	}
}

// patches with state worth sharing: elision maps, for-dots, imports
var c14ExtraPatches = []struct {
	name, patch string
	srcs        []string
}{
	{"dots-stmts", "@@\n@@\n func f() {\n   ...\n-  vfOldA()\n+  vfNewA()\n   ...\n }\n", []string{
		"package a\n\nfunc f() {\n\tx := 1\n\tvfOldA()\n\t_ = x\n}\n",
		"package a\n\nfunc f() {\n\tvfOldA()\n}\n",
		"package a\n\nfunc f() {\n\tg()\n\th()\n\tvfOldA()\n\ti()\n}\n",
		"package a\n\nfunc g() {\n\tvfOldA()\n}\n"}},
	{"dots-args", "@@\nvar x expression\n@@\n-vfOldB(x, ...)\n+vfNewB(..., x)\n", []string{
		"package a\n\nfunc f() {\n\tvfOldB(1, 2, 3)\n}\n",
		"package a\n\nfunc f() {\n\tvfOldB(a)\n\tvfOldB(g(1), \"s\")\n}\n",
		"package a\n\nfunc f() {\n\tnothing()\n}\n"}},
	{"for-dots", "@@\nvar x identifier\n@@\n for ... {\n-  vfOldC(x)\n+  vfNewC(x)\n }\n", []string{
		"package a\n\nfunc f() {\n\tfor i := 0; i < 3; i++ {\n\t\tvfOldC(i)\n\t}\n}\n",
		"package a\n\nfunc f() {\n\tfor _, v := range xs {\n\t\tvfOldC(v)\n\t}\n}\n",
		"package a\n\nfunc f() {\n\tfor {\n\t\tvfOldC(q)\n\t}\n}\n"}},
	{"import-and-call", "@@\n@@\n-import \"vf/oldpkg\"\n+import \"vf/newpkg\"\n\n-oldpkg.Do(...)\n+newpkg.Do(...)\n", []string{
		"package a\n\nimport \"vf/oldpkg\"\n\nfunc f() {\n\toldpkg.Do(1, 2)\n}\n",
		"package a\n\nimport (\n\t\"fmt\"\n\t\"vf/oldpkg\"\n)\n\nfunc f() {\n\tfmt.Println()\n\toldpkg.Do()\n}\n",
		"package a\n\nimport \"fmt\"\n\nfunc f() {\n\tfmt.Println()\n}\n"}},
	{"comments-around", "@@\nvar x expression\n@@\n-vfOldD(x)\n+vfNewD(x)\n", []string{
		"package a\n\n// doc\nfunc f() {\n\t// before\n\tvfOldD(1) // trailing\n\t// after\n}\n",
		"package a\n\nfunc f() {\n\tvfOldD(/* inner */ 2)\n\n\n\tvfOldD(3)\n}\n"}},
	{"ill-typed", "@@\nvar x expression\n@@\n-vfOldE(x)\n+bar(func() { var x int })\n", []string{
		"package a\n\nfunc f() {\n\tvfOldE(1 + 2)\n}\n",
		"package a\n\nfunc f() {\n\tvfOldE(y)\n}\n",
		"package a\n\nfunc f() {\n\tother()\n}\n"}},
}

type c14PatchSrc struct {
	name  string
	patch []byte
	srcs  [][]byte
}

var c14Pool []c14PatchSrc

func c14Load() {
	if c14Pool != nil {
		return
	}
	for _, e := range c14ExtraPatches {
		ps := c14PatchSrc{name: e.name, patch: []byte(e.patch)}
		for _, s := range e.srcs {
			ps.srcs = append(ps.srcs, []byte(s))
		}
		c14Pool = append(c14Pool, ps)
	}
	for _, cc := range Corpus() {
		if len(cc.Patches) != 1 {
			continue
		}
		ps := c14PatchSrc{name: "corpus/" + cc.Name, patch: cc.Patches[0].Data}
		for _, in := range cc.Inputs {
			ps.srcs = append(ps.srcs, in.Data)
		}
		c14Pool = append(c14Pool, ps)
	}
	for k, t := range Templates {
		r := world.NewPRNG(uint64(100 + k))
		ch := Change{T: t, K: 1}
		ps := c14PatchSrc{name: "template/" + t.Name, patch: []byte(ch.Text())}
		for j := 0; j < 3; j++ {
			ps.srcs = append(ps.srcs, MatchingFile(r, []Change{ch}, "canonical", ""))
		}
		ps.srcs = append(ps.srcs, NonMatchingFile(r, "canonical", ""))
		c14Pool = append(c14Pool, ps)
	}
}

func (c14) Gen(env *Env, seed uint64, tier string, i int) *Case {
	c14Load()
	r := world.NewPRNG(world.Mix(seed, 14, uint64(i)))
	kind := i % 3
	if kind == 2 != RaceEnabled {
		return nil
	}
	switch kind {
	case 0:
		return c14GenCLI(r, seed, i)
	case 1:
		return c14GenHist(r, seed, i)
	}
	return c14GenSched(r, seed, i, tier)
}

func c14GenCLI(r *world.PRNG, seed uint64, i int) *Case {
	c := NewCLICase("C14", "cli", i, seed)
	pp := GenPatchPlan(r, 3, Templates)
	pp.Install(c, r)
	if r.Chance(1, 3) {
		// a patch whose replacement fails for some bindings (rewrite error)
		e := c14ExtraPatches[5]
		c.AddPatch("ill.patch", "p", []byte(e.patch), nil, nil)
		for i := range c.Patches {
			if c.Patches[i].Via != "p" {
				c.Patches[i].Via = "p"
				if c.Patches[i].Path == "stdin" {
					c.Patches[i].Path = PatDir + "/p0.patch"
					c.SetNode(world.NodeSpec{Path: c.Patches[i].Path, Kind: "file", Data: c.Patches[i].Data})
				}
			}
		}
		c.Extra["ill"] = "1"
	}
	if r.Chance(1, 3) {
		// a file whose rewritten form does not parse: it fails after formatting
		m := Misfits[r.Intn(len(Misfits))]
		for i := range c.Patches {
			if c.Patches[i].Via != "p" {
				c.Patches[i].Via = "p"
				if c.Patches[i].Path == "stdin" {
					c.Patches[i].Path = PatDir + "/p0.patch"
					c.SetNode(world.NodeSpec{Path: c.Patches[i].Path, Kind: "file", Data: c.Patches[i].Data})
				}
			}
		}
		c.AddPatch("misfit.patch", "p", []byte(m.Patch(48)), nil, nil)
		c.AddFile(r.Pick([]string{"a_mis.go", "mm_mis.go", "pkg/a_mis.go"}), GenValidGoFile(r, GoFileOpts{Funcs: 1, Stmts: []string{m.Stmt(48)}}), "misfit", nil, m.Name)
	}
	all := pp.All()
	n := r.Range(2, 6)
	for j := 0; j < n; j++ {
		dir := ""
		if r.Chance(1, 3) {
			dir = r.Pick([]string{"pkg/", "internal/x/"})
		}
		roll := r.Intn(100)
		switch {
		case roll < 50:
			var cs []Change
			for _, ch := range all {
				if r.Chance(1, 2) {
					cs = append(cs, ch)
				}
			}
			if len(cs) == 0 {
				cs = []Change{all[r.Intn(len(all))]}
			}
			style := "canonical"
			if r.Chance(1, 3) {
				style = r.Pick(Styles)
			}
			c.AddFile(fmt.Sprintf("%smt%d.go", dir, j), MatchingFile(r, cs, style, r.Pick(plainHeaders)), "match", nil, "")
		case roll < 65:
			c.AddFile(fmt.Sprintf("%snm%d.go", dir, j), NonMatchingFile(r, r.Pick(Styles), ""), "nomatch", nil, "")
		case roll < 78:
			c.AddFile(fmt.Sprintf("%sbad%d.go", dir, j), UnparseableFile(r), "unparseable", nil, "")
		case roll < 88:
			src := MatchingFile(r, []Change{all[0]}, "canonical", "// Code generated by x. DO NOT EDIT.\n\n")
			c.AddFile(fmt.Sprintf("%sgen%d.go", dir, j), src, "generated", nil, "")
		default:
			if c.Extra["ill"] == "1" {
				c.AddFile(fmt.Sprintf("%sill%d.go", dir, j), []byte(c14ExtraPatches[5].srcs[r.Intn(2)]), "rewrite-error", nil, "")
			} else {
				c.AddFile(fmt.Sprintf("%snm%d.go", dir, j), NonMatchingFile(r, "canonical", ""), "nomatch", nil, "")
			}
		}
	}
	if r.Chance(1, 5) {
		// files with unusual imports (cgo, unsafe, dot and blank imports, embed)
		// that match, sorting before an ordinary matching file whose import block
		// is ungrouped: what is decided for the first must not leak to the second
		ch := all[r.Intn(len(all))]
		if ch.T.Decl == nil && ch.T.Imports == nil {
			special := r.Pick([]string{
				"/*\n#include <stdlib.h>\n*/\nimport \"C\"\n",
				"import \"C\"\n",
				"import \"unsafe\"\n\nvar _ unsafe.Pointer\n",
				"import . \"fmt\"\n\nvar _ = Sprint\n",
				"import _ \"embed\"\n\n//go:embed a_special.go\nvar self string\n",
			})
			src := "package sample\n\n" + special + "\nfunc special() {\n\t" + ch.T.Stmt(r, ch.K) + "\n}\n"
			if ParsesAsGo([]byte(src)) == nil {
				c.AddFile("a_special.go", []byte(src), "match", nil, "special-imports")
				o := GoFileOpts{Funcs: 1, Style: "canonical", Stmts: []string{ch.T.Stmt(r, ch.K)}, Imports: []string{"os", "example.com/zeta", "fmt", "example.com/alpha"}}
				c.AddFile("zz_after_special.go", GenValidGoFile(r, o), "match", nil, "ungrouped-imports")
				c.Extra["special_imports"] = "1"
			}
		}
	}
	if r.Chance(1, 6) {
		// names the go tool ignores and gopatch does not: they sort before their
		// siblings, which must be processed all the same
		for i, f := range c.Files {
			if r.Chance(1, 2) && !strings.Contains(strings.TrimPrefix(f.Path, ProjDir+"/"), "/") {
				np := ProjDir + "/" + r.Pick([]string{"_", "."}) + path.Base(f.Path)
				data := c.NodeData(f.Path)
				for k := range c.Spec.Nodes {
					if c.Spec.Nodes[k].Path == f.Path {
						c.Spec.Nodes[k].Path = np
					}
				}
				_ = data
				c.Files[i].Path = np
				c.Extra["underscore_named"] = "1"
				break
			}
		}
	}
	for _, ch := range all {
		if ch.T.Name == "package-guarded" {
			// one directory, two package names: the foreign one sorts first and must
			// not decide anything about its neighbour
			foreign := GenValidGoFile(r, GoFileOpts{Pkg: "sample_test", Funcs: 1, Stmts: []string{ch.T.Stmt(r, ch.K)}})
			c.AddFile("mixed/a_example_test.go", foreign, "nomatch", nil, "foreign-package")
			c.AddFile("mixed/lib.go", GenValidGoFile(r, GoFileOpts{Funcs: 1, Stmts: []string{ch.T.Stmt(r, ch.K)}}), "match", nil, "guarded")
			c.Extra["mixed_packages"] = "1"
			break
		}
	}
	if r.Chance(1, 4) {
		// a module root below the project directory: one matching file inside the
		// module, one outside any module, both importing from the module, from a
		// third party and from the standard library in one ungrouped block
		c.SetNode(world.NodeSpec{Path: ProjDir + "/svc/go.mod", Kind: "file", Data: []byte("module example.com/mod\n\ngo 1.21\n")})
		mk := func() []byte {
			ch := all[r.Intn(len(all))]
			o := GoFileOpts{Funcs: 1, Style: "canonical", Imports: []string{"os", "example.com/mod/pkg", "github.com/x/y", "fmt", "example.com/mod/a"}}
			if ch.T.Decl != nil {
				o.Decls = append(o.Decls, ch.T.Decl(r, ch.K))
			} else {
				o.Stmts = append(o.Stmts, ch.T.Stmt(r, ch.K))
			}
			if ch.T.Imports != nil {
				o.Imports = append(o.Imports, ch.T.Imports(ch.K)...)
			}
			return GenValidGoFile(r, o)
		}
		c.AddFile("svc/in_module.go", mk(), "match", nil, "module")
		c.AddFile("tools/outside_module.go", mk(), "match", nil, "module")
		if r.Chance(1, 2) {
			c.AddFile("a_first/outside_too.go", mk(), "match", nil, "module")
		}
		c.Extra["module"] = "1"
	}
	if r.Chance(1, 12) {
		// more files than the process may hold open at once: what is opened for one
		// file must be closed before the next
		ch := all[0]
		for k := 0; k < r.Range(24, 40); k++ {
			o := GoFileOpts{Funcs: 1, Style: "canonical"}
			if ch.T.Decl != nil {
				o.Decls = append(o.Decls, ch.T.Decl(r, ch.K))
			} else {
				o.Stmts = append(o.Stmts, ch.T.Stmt(r, ch.K))
			}
			if ch.T.Imports != nil {
				o.Imports = append(o.Imports, ch.T.Imports(ch.K)...)
			}
			c.AddFile(fmt.Sprintf("many/m%02d.go", k), GenValidGoFile(r, o), "match", nil, "many")
		}
		c.Spec.Knobs.MaxOpenFiles = r.Range(8, 16)
		c.Extra["fd_limit"] = "1"
	}
	if i%1800 == 9 {
		// (every 600th CLI world) several hundred files in one invocation, all of which get an import added,
		// by a patch whose first line is very long: whatever is kept per run (position
		// tables, caches) and renewed after so-and-so many files shows in the late ones
		for i := range c.Patches {
			if c.Patches[i].Via != "p" {
				c.Patches[i].Via = "p"
				if c.Patches[i].Path == "stdin" {
					c.Patches[i].Path = PatDir + "/p0.patch"
					c.SetNode(world.NodeSpec{Path: c.Patches[i].Path, Kind: "file", Data: c.Patches[i].Data})
				}
			}
		}
		ai := TemplateByName("add-import")
		c.AddPatch("long.patch", "p", []byte("# "+strings.Repeat("a very long description line ", 24)+"\n"+ai.Patch(77)), nil, nil)
		for k := 0; k < r.Range(515, 560); k++ {
			c.AddFile(fmt.Sprintf("bulk/f%03d.go", k), []byte(fmt.Sprintf("package bulk\n\n// U%03d is documented.\nfunc U%03d() {\n\t// inside U%03d\n\tvfOld77()\n}\n", k, k, k)), "match", nil, "bulk")
		}
		c.Extra["bulk_files"] = "1"
	}
	AddDecoys(c, r)
	if r.Chance(1, 5) && c.Extra["bulk_files"] != "1" {
		AddHardlinkTarget(c, r)
	}
	c.Flags = Flags{SkipImport: r.Chance(1, 4), SkipGen: r.Chance(1, 2), Verbose: false}
	if c.Extra["bulk_files"] == "1" {
		c.Flags.SkipImport = false
	}
	for _, f := range c.Files {
		c.Targets = append(c.Targets, strings.TrimPrefix(f.Path, ProjDir+"/"))
	}
	c.Extra["perm"] = fmt.Sprint(r.Uint64())
	c.RebuildArgs()
	return c
}

func c14GenHist(r *world.PRNG, seed uint64, i int) *Case {
	c := &Case{Prop: "C14", Sub: "hist", Idx: i, Seed: seed, Extra: map[string]string{}}
	ps := c14Pool[r.Intn(len(c14Pool))]
	c.APIPatch = ps.patch
	c.Extra["patch"] = ps.name
	pool := append([][]byte{}, ps.srcs...)
	pool = append(pool, []byte("package broken\n\nfunc {{{\n"), NonMatchingFile(r, r.Pick(Styles), ""))
	other := c14Pool[r.Intn(len(c14Pool))]
	pool = append(pool, other.srcs[r.Intn(len(other.srcs))])
	pool = append(pool, append(append([]byte(nil), ps.srcs[r.Intn(len(ps.srcs))]...), []byte("\n\nfunc tail() {\n\tif {{{\n")...))
	n := r.Range(2, 12)
	sameName := r.Chance(1, 3)
	for j := 0; j < n; j++ {
		k := r.Intn(len(pool))
		name := fmt.Sprintf("s%d.go", k)
		if sameName {
			name = "same.go"
		}
		c.Calls = append(c.Calls, APICall{Filename: name, Src: pool[k]})
	}
	return c
}

func c14GenSched(r *world.PRNG, seed uint64, i int, tier string) *Case {
	c := &Case{Prop: "C14", Sub: "sched", Idx: i, Seed: seed, Extra: map[string]string{}}
	ps := c14Pool[r.Intn(len(c14Pool))]
	c.APIPatch = ps.patch
	c.Extra["patch"] = ps.name
	pool := append([][]byte{}, ps.srcs...)
	if r.Chance(1, 3) {
		pool = append(pool, []byte("package broken\n\nfunc {{{\n"))
	}
	if r.Chance(1, 3) {
		// a source that fails to parse only at its very end
		pool = append(pool, append(append([]byte(nil), ps.srcs[r.Intn(len(ps.srcs))]...), []byte("\n\nfunc tail() {\n\tif {{{\n")...))
	}
	sameName := r.Chance(1, 3) // every caller passes the same file name
	if sameName {
		c.Extra["same_filename"] = "1"
	}
	K := r.Range(2, 4)
	for t := 0; t < K; t++ {
		nc := r.Range(1, 3)
		for j := 0; j < nc; j++ {
			k := r.Intn(len(pool))
			name := fmt.Sprintf("t%d_s%d.go", t, k)
			if sameName {
				name = "shared.go"
			}
			c.Calls = append(c.Calls, APICall{Task: t, Filename: name, Src: pool[k]})
		}
	}
	if r.Chance(1, 4) {
		other := c14Pool[r.Intn(len(c14Pool))]
		c.Calls = append(c.Calls, APICall{Task: K, Parse: true, Filename: "other.patch", Src: other.patch})
	}
	sc := &Sched{Seed: r.Uint64()}
	switch roll := r.Intn(100); {
	case roll < 30:
		sc.Policy = "pct"
		sc.Param = r.Range(1, 3)
	case roll < 50:
		sc.Policy = "bernoulli"
		sc.Param = []int{1, 10, 100, 1000}[r.Intn(4)]
	case roll < 60:
		sc.Policy = "rr"
		sc.Param = r.Range(1, 400)
	case roll < 80:
		sc.Policy = "preempt"
		sc.Param = -1 // drawn from the solo length at evaluation time
	default:
		// two switches: 0 -> 1 at a point chosen uniformly over the yield SITES of
		// task 0's call (biased towards the shallow orchestration code of the API),
		// then 1 -> 0 at a site-uniform point of task 1's call: task 0 finishes
		// while task 1 is suspended in mid-call
		sc.Policy = "preempt2"
	}
	c.Sched = sc
	return c
}

func (c14) Eval(env *Env, c *Case) []Violation {
	switch c.Sub {
	case "cli":
		return c14EvalCLI(env, c)
	case "hist":
		return c14EvalHist(env, c)
	case "sched":
		return c14EvalSched(env, c)
	}
	return nil
}

// ---------------------------------------------------------------------------
// (1) files of one CLI run

func c14EvalCLI(env *Env, c *Case) []Violation {
	var vs []Violation
	seen := map[string]bool{}
	add := func(oracle, sig, detail string) {
		s := "C14/" + oracle + "/" + sig
		if seen[s] {
			return
		}
		seen[s] = true
		vs = append(vs, Violation{Oracle: oracle, Signature: s, Detail: detail})
	}
	// a replayed case carries the one fault plan to try
	explicit := c.Spec.Faults
	if len(explicit) > 0 {
		c = c.Clone()
		c.Spec.Faults = nil
	}
	init := c.InitialState()
	orig := goFiles(init)
	sorted := c.SortedFiles()
	type soloRes struct {
		final    []byte
		print    []byte
		stderr   string
		exit     int
		ok       bool
		printErr string
	}
	solo := map[string]soloRes{}
	for _, f := range sorted {
		sc := c.Clone()
		for _, g := range c.Files {
			if g.Path != f.Path {
				sc.DropFile(g.Path)
			}
		}
		sc.Targets = []string{strings.TrimPrefix(f.Path, ProjDir+"/")}
		sc.Flags.Print, sc.Flags.Diff = false, false
		sc.RebuildArgs()
		r1 := env.Run(sc.Spec)
		sc.Flags.Print = true
		sc.RebuildArgs()
		r2 := env.Run(sc.Spec)
		if r1.Outcome != OutExit || r2.Outcome != OutExit {
			env.Probe("solo-run-did-not-exit")
			return nil
		}
		sr := soloRes{print: r2.Stdout, stderr: string(r1.Stderr), exit: r1.Exit, ok: true, printErr: string(r2.Stderr)}
		if st := FindState(r1.Final, f.Path); st != nil {
			sr.final = st.Data
		}
		solo[f.Path] = sr
		if f.Role == "unparseable" {
			env.Probe("cli-unparseable-neighbour")
		}
	}
	if c.Extra["module"] == "1" {
		env.Probe("cli-module-root-in-tree")
	}
	if c.Extra["mixed_packages"] == "1" {
		env.Probe("cli-two-packages-in-one-directory")
	}
	if c.Extra["fd_limit"] == "1" {
		env.Probe("cli-more-files-than-descriptors")
	}
	if c.Extra["special_imports"] == "1" {
		env.Probe("cli-special-imports-before-ungrouped")
	}
	if c.Extra["bulk_files"] == "1" {
		env.Probe("cli-more-than-five-hundred-files")
	}
	if c.Extra["underscore_named"] == "1" {
		env.Probe("cli-underscore-or-dot-named-file")
	}
	var wantPrint bytes.Buffer
	anyFail := false
	for _, f := range sorted {
		wantPrint.Write(solo[f.Path].print)
		if solo[f.Path].exit != 0 {
			anyFail = true
		}
	}
	kinds := []string{}
	for _, f := range c.Files {
		kinds = append(kinds, f.Role)
	}
	sort.Strings(kinds)
	// permutations of the arguments
	var pseed uint64
	fmt.Sscan(c.Extra["perm"], &pseed)
	pr := world.NewPRNG(pseed)
	n := len(c.Targets)
	var perms [][]int
	if n <= 4 {
		perms = allPerms(n)
	} else {
		for k := 0; k < 6; k++ {
			perms = append(perms, pr.Perm(n))
		}
	}
	if c.Extra["bulk_files"] == "1" {
		perms = perms[:2] // hundreds of files: two orders are enough
	}
	variants := 0
	for pi, perm := range perms {
		gc := c.Clone()
		gc.Targets = make([]string, n)
		for a, b := range perm {
			gc.Targets[a] = c.Targets[b]
		}
		switch pr.Intn(6) {
		case 0:
			gc.Targets = []string{"."}
		case 5:
			// the same file named a second time in another spelling
			t := gc.Targets[pr.Intn(n)]
			gc.Targets = append(gc.Targets, pr.Pick([]string{ProjDir + "/" + t, "./" + t, ProjDir + "/./" + t, ProjDir}))
			env.Probe("cli-respelled-duplicate")
		case 1:
			gc.Targets = append(gc.Targets, gc.Targets[pr.Intn(n)]) // duplicate
		case 2:
			gc.Targets = append([]string{"./..."}, gc.Targets...)
		}
		for _, printMode := range []bool{false, true} {
			gc.Flags.Print = printMode
			gc.RebuildArgs()
			r := env.Run(gc.Spec)
			variants++
			env.Probe("cli-grouped-vs-solo")
			if pi > 0 {
				env.Probe("cli-permutation")
			}
			env.Seen(fmt.Sprintf("cli|%s|%v|%v", strings.Join(kinds, ","), gc.Targets, printMode))
			if r.Outcome != OutExit {
				env.Probe("grouped-run-did-not-exit")
				continue
			}
			tag := "in-place"
			if printMode {
				tag = "print"
			}
			if printMode && len(gc.Targets) == len(c.Targets) && gc.Targets[0] != "." && gc.Targets[0] != "./..." {
				// what stderr says about a file (descriptions, diagnostics) is the same as when it is alone
				for _, f := range sorted {
					rel := strings.TrimPrefix(f.Path, ProjDir+"/")
					if g, w := linesAbout(string(r.Stderr), rel, f.Path), linesAbout(solo[f.Path].printErr, rel, f.Path); g != w {
						add("grouped-vs-solo", "stderr/"+f.Role, fmt.Sprintf("stderr lines about %s differ between the grouped run (args %v) and the solo run:\n grouped: %q\n solo:    %q", f.Path, gc.Spec.Args, clip(g, 300), clip(w, 300)))
					}
				}
			}
			if printMode {
				if !bytes.Equal(r.Stdout, wantPrint.Bytes()) {
					// which file differs?
					who := "?"
					pos := 0
					for _, f := range sorted {
						sp := solo[f.Path].print
						if !bytes.HasPrefix(r.Stdout[min(pos, len(r.Stdout)):], sp) {
							who = rolesOf(c, f.Path)
							break
						}
						pos += len(sp)
					}
					add("grouped-vs-solo", "print/"+who, fmt.Sprintf("--print-only output of the grouped run (args %v) is not the concatenation of the solo outputs in path order; first differing file kind: %s\n got: %q\nwant: %q", gc.Spec.Args, who, clip(string(r.Stdout), 500), clip(wantPrint.String(), 500)))
				}
			} else {
				fin := goFiles(r.Final)
				for _, f := range sorted {
					if !bytes.Equal(fin[f.Path].Data, solo[f.Path].final) {
						add("grouped-vs-solo", "bytes/"+f.Role, fmt.Sprintf("%s (%s) ends as %q in the grouped run (args %v) but as %q when processed alone", f.Path, f.Role, clip(string(fin[f.Path].Data), 300), gc.Spec.Args, clip(string(solo[f.Path].final), 300)))
					}
				}
			}
			for _, f := range sorted {
				failedSolo := solo[f.Path].exit != 0
				namedGrouped := strings.Contains(string(r.Stderr), f.Path)
				if failedSolo != namedGrouped && !printMode {
					add("grouped-vs-solo", "failure-report/"+f.Role+"/"+tag, fmt.Sprintf("%s (%s): fails alone=%v, named on the grouped run's stderr=%v (args %v, stderr %q)", f.Path, f.Role, failedSolo, namedGrouped, gc.Spec.Args, clip(string(r.Stderr), 300)))
				}
			}
			if (r.Exit != 0) != anyFail {
				add("grouped-vs-solo", "exit/"+tag, fmt.Sprintf("grouped exit status %d but solo runs fail=%v (args %v, stderr %q)", r.Exit, anyFail, gc.Spec.Args, clip(string(r.Stderr), 300)))
			}
			// a neighbour's write goes wrong (disk full, size limit, I/O error): at
			// most the file that was struck deviates from its solo result
			if pi == 0 && !printMode && c.Extra["hardlink_target"] != "1" {
				wrote := wroteHandles(r.Log)
				var sites []int
				for k, o := range r.Log {
					switch cl := opClass(o, wrote); cl {
					case "open-w", "write", "close-w", "rename":
						sites = append(sites, k)
					}
				}
				for try := 0; try < 3 && len(sites) > 0; try++ {
					k := sites[pr.Intn(len(sites))]
					o := r.Log[k]
					ens := c16Errnos[opClass(o, wrote)]
					f := world.Fault{AtOp: k, Kind: "fail", Errno: ens[pr.Intn(len(ens))]}
					if o.Name == "write" && o.N > 0 {
						f.Bytes = pr.Intn(o.N + 1)
					}
					fs := gc.Spec.Clone()
					fs.Faults = []world.Fault{f}
					if len(explicit) > 0 {
						fs.Faults = explicit
					}
					rf := env.Run(fs)
					if len(rf.Fired) == 0 || rf.Outcome != OutExit {
						continue
					}
					env.Probe("cli-neighbour-write-fault")
					fin := goFiles(rf.Final)
					var dev []string
					for _, g := range sorted {
						if !bytes.Equal(fin[g.Path].Data, solo[g.Path].final) {
							dev = append(dev, g.Path)
						}
					}
					if len(dev) > 1 {
						cc := c.Clone()
						cc.Spec.Faults = fs.Faults
						vs = append(vs, Violation{Oracle: "grouped-vs-solo", Signature: "C14/grouped-vs-solo/bytes-after-neighbour-write-fault", Case: cc,
							Detail: fmt.Sprintf("one injected %s on %s %s (args %v) and %d files do not end as they do alone: %v", rf.Fired[0].Err, rf.Fired[0].Name, rf.Fired[0].Path, gc.Spec.Args, len(dev), dev)})
						break
					}
				}
			}
			// same run again: identical event log
			if pi == 0 {
				r2 := RunCLI(env.Prog, gc.Spec)
				env.Probe("cli-repeat-identical")
				if d := diffRuns(r, r2); d != "" {
					add("nondeterministic", tag, fmt.Sprintf("the same invocation (args %v) run twice differs: %s", gc.Spec.Args, d))
				}
			}
		}
	}
	_ = orig
	if !env.Quiet {
		env.Stats.Sample(map[string]interface{}{"harness": "cli", "args": c.Spec.Args, "files": c.Files, "variants": variants}, 2)
	}
	return vs
}

// linesAbout returns the sorted stderr lines that mention a file.
func linesAbout(stderr, rel, abs string) string {
	var out []string
	for _, l := range strings.Split(stderr, "\n") {
		// description lines have the form <path>:<text>; diagnostics of several
		// files may share one line and are compared elsewhere
		if strings.HasPrefix(l, rel+":") || strings.HasPrefix(l, abs+":") {
			out = append(out, l)
		}
	}
	sort.Strings(out)
	return strings.Join(out, "\n")
}

func rolesOf(c *Case, p string) string {
	for _, f := range c.Files {
		if f.Path == p {
			return f.Role
		}
	}
	return "?"
}

func min(a, b int) int {
	if a < b {
		return a
	}
	return b
}

func allPerms(n int) [][]int {
	var out [][]int
	a := make([]int, n)
	for i := range a {
		a[i] = i
	}
	var rec func(k int)
	rec = func(k int) {
		if k == n {
			out = append(out, append([]int(nil), a...))
			return
		}
		for i := k; i < n; i++ {
			a[k], a[i] = a[i], a[k]
			rec(k + 1)
			a[k], a[i] = a[i], a[k]
		}
	}
	rec(0)
	return out
}

// diffRuns compares two runs' complete observable event logs.
func diffRuns(a, b *RunResult) string {
	switch {
	case a.Outcome != b.Outcome || a.Exit != b.Exit:
		return fmt.Sprintf("outcome %s/%d vs %s/%d", a.Outcome, a.Exit, b.Outcome, b.Exit)
	case !bytes.Equal(a.Stdout, b.Stdout):
		return "stdout differs"
	case !bytes.Equal(a.Stderr, b.Stderr):
		return fmt.Sprintf("stderr differs: %q vs %q", clip(string(a.Stderr), 200), clip(string(b.Stderr), 200))
	case len(a.Log) != len(b.Log):
		return fmt.Sprintf("op count %d vs %d", len(a.Log), len(b.Log))
	}
	for i := range a.Log {
		x, y := a.Log[i], b.Log[i]
		if x.Name != y.Name || x.Path != y.Path || x.N != y.N || x.Err != y.Err {
			return fmt.Sprintf("op %d: %s %s vs %s %s", i, x.Name, x.Path, y.Name, y.Path)
		}
	}
	if d := SnapEqual(a.Final, b.Final); d != "" {
		return "final state: " + d
	}
	return ""
}

// ---------------------------------------------------------------------------
// (2) histories of Apply on one parsed patch

func c14EvalHist(env *Env, c *Case) (vs []Violation) {
	shared, pres := ParseAPI(env.Prog, "p.patch", c.APIPatch)
	if shared == nil {
		_ = pres
		return nil
	}
	shape := ""
	type kept struct {
		raw  []byte // the slice Apply returned, NOT copied
		want []byte
		idx  int
	}
	var held []kept
	defer func() {
		// a result must stay what it was after later calls on the same parsed patch
		for _, k := range held {
			if !bytes.Equal(k.raw, k.want) {
				vs = append(vs, Violation{Oracle: "history", Signature: "C14/history/result-changed-later", Detail: fmt.Sprintf("the bytes returned by call #%d on a shared parsed patch (%s) were %q when returned and read %q after %d later calls", k.idx+1, c.Extra["patch"], clip(string(k.want), 200), clip(string(k.raw), 200), len(c.Calls)-k.idx-1)})
				break
			}
		}
	}()
	for i, call := range c.Calls {
		fresh, _ := ParseAPI(env.Prog, "p.patch", c.APIPatch)
		if fresh == nil {
			return vs
		}
		want := ApplyAPI(fresh, call.Filename, call.Src)
		got := ApplyAPI(shared, call.Filename, call.Src)
		if got.Raw != nil && !got.IsErr {
			held = append(held, kept{raw: got.Raw, want: got.Out, idx: i})
			env.Probe("hist-result-held")
		}
		env.Probe("hist-call")
		if want.IsErr || want.Panic != "" {
			env.Probe("hist-failing-call")
			shape += "F"
		} else if bytes.Equal(want.Out, call.Src) {
			shape += "n"
		} else {
			shape += "m"
		}
		HashBytes([]byte(got.Key()))
		if want.NoProg || got.NoProg {
			continue
		}
		if got.Key() != want.Key() {
			what := "bytes"
			if got.IsErr != want.IsErr || (got.Panic != "") != (want.Panic != "") {
				what = "error"
			}
			vs = append(vs, Violation{Oracle: "history", Signature: "C14/history/" + what, Detail: fmt.Sprintf("call #%d of %d on a shared parsed patch (%s) returned %s but a freshly parsed patch returns %s; history shape so far %q", i+1, len(c.Calls), c.Extra["patch"], clip(got.Key(), 300), clip(want.Key(), 300), shape)})
			break
		}
	}
	env.Seen("hist|" + c.Extra["patch"] + "|" + shape)
	if !env.Quiet {
		env.Stats.Sample(map[string]interface{}{"harness": "hist", "patch": c.Extra["patch"], "calls": len(c.Calls), "shape": shape}, 2)
	}
	return vs
}

// ---------------------------------------------------------------------------
// (3) interleavings of concurrent Apply

var raceLogOff int64

func raceLogPath() string {
	p := os.Getenv("VERIF_RACE_LOG")
	if p == "" {
		return ""
	}
	return fmt.Sprintf("%s.%d", p, os.Getpid())
}

// newRaceReports returns race reports written since the last call.
func newRaceReports() string {
	p := raceLogPath()
	if p == "" {
		return ""
	}
	f, err := os.Open(p)
	if err != nil {
		return ""
	}
	defer f.Close()
	st, err := f.Stat()
	if err != nil || st.Size() <= raceLogOff {
		return ""
	}
	buf := make([]byte, st.Size()-raceLogOff)
	f.ReadAt(buf, raceLogOff)
	raceLogOff = st.Size()
	return string(buf)
}

var reRaceFrame = regexp.MustCompile(`(?m)^  (github\.com/uber-go/gopatch[^\s(]*(?:\([^)]*\))?[^\s(]*)\(`)

func raceSignature(report string) string {
	// first gopatch frame of each of the two stacks
	parts := strings.Split(report, "Previous ")
	var fns []string
	for _, p := range parts {
		if m := reRaceFrame.FindStringSubmatch(p); m != nil {
			fn := strings.TrimPrefix(m[1], "github.com/uber-go/gopatch")
			fn = strings.TrimLeft(fn, "/.")
			fns = append(fns, reClosure.ReplaceAllString(fn, ""))
		}
		if len(fns) == 2 {
			break
		}
	}
	sort.Strings(fns)
	if len(fns) == 0 {
		return "outside-gopatch"
	}
	return strings.Join(fns, "~")
}

func c14MakePolicy(sc *Sched, est uint64) *simrt.Policy {
	return &simrt.Policy{Kind: sc.Policy, Param: sc.Param, Seed: sc.Seed, Est: est, Switches: sc.Switches}
}

func applyRaw(a Applier, filename string, src []byte) (res APIResult) {
	defer func() {
		if r := recover(); r != nil {
			if _, ok := r.(simrt.NoProgress); ok {
				res.NoProg = true
			} else {
				res.Panic = fmt.Sprint(r)
			}
			res.Stack = string(debug.Stack())
		}
	}()
	out, err := a.Apply(filename, append([]byte(nil), src...))
	if err != nil {
		res.IsErr = true
		res.Err = err.Error()
		return res
	}
	res.Out = append([]byte(nil), out...)
	return res
}

func c14EvalSched(env *Env, c *Case) []Violation {
	var vs []Violation
	if !RaceEnabled && os.Getenv("VERIF_ALLOW_NORACE_SCHED") == "" {
		// replay of a sched case needs the race binary; the coordinator routes it there
		return nil
	}
	newRaceReports() // drain
	// solo references, each on a freshly parsed patch
	want := make([]APIResult, len(c.Calls))
	var est uint64
	ntasks := 0
	for i, call := range c.Calls {
		if call.Task+1 > ntasks {
			ntasks = call.Task + 1
		}
		if call.Parse {
			_, pres := ParseAPI(env.Prog, call.Filename, call.Src)
			want[i] = pres
			est += pres.Steps
			continue
		}
		fresh, _ := ParseAPI(env.Prog, "p.patch", c.APIPatch)
		if fresh == nil {
			return nil
		}
		want[i] = ApplyAPI(fresh, call.Filename, call.Src)
		est += want[i].Steps
		if want[i].NoProg {
			return nil
		}
	}
	if rep := newRaceReports(); rep != "" {
		// a race within a solo call (e.g. with the interval-set goroutine)
		vs = append(vs, Violation{Oracle: "data-race", Signature: "C14/data-race/solo/" + raceSignature(rep), Detail: "the race detector reported a data race during a solo Apply call:\n" + clip(rep, 3000)})
		return vs
	}
	shared, _ := ParseAPI(env.Prog, "p.patch", c.APIPatch)
	if shared == nil {
		return nil
	}
	sc := *c.Sched
	if sc.Policy == "preempt" && sc.Param < 0 {
		// pre-empt task 0 somewhere inside its first call
		r := world.NewPRNG(sc.Seed)
		first := uint64(1)
		for i, call := range c.Calls {
			if call.Task == 0 {
				first = want[i].Steps
				break
			}
		}
		if first < 2 {
			first = 2
		}
		sc.Param = int(1 + r.Uint64()%first)
	}
	if sc.Policy == "preempt2" {
		r := world.NewPRNG(sc.Seed)
		pick := func(task int) uint64 {
			for _, call := range c.Calls {
				if call.Task != task || call.Parse {
					continue
				}
				fresh, _ := ParseAPI(env.Prog, "p.patch", c.APIPatch)
				if fresh == nil {
					return 1
				}
				simrt.RecordFirst(true)
				ApplyAPI(fresh, call.Filename, call.Src)
				fs := simrt.FirstSeen()
				simrt.RecordFirst(false)
				var all, shallow []uint64
				var ids []int
				for id := range fs {
					ids = append(ids, int(id))
				}
				sort.Ints(ids)
				for _, id := range ids {
					all = append(all, fs[uint32(id)])
					if shallowSite(uint32(id)) {
						shallow = append(shallow, fs[uint32(id)])
					}
				}
				if len(all) == 0 {
					return 1
				}
				if len(shallow) > 0 && r.Chance(1, 2) {
					return shallow[r.Intn(len(shallow))]
				}
				return all[r.Intn(len(all))]
			}
			return 1
		}
		y1 := pick(0)
		y2 := pick(1)
		sc.Policy = "explicit"
		sc.Switches = []simrt.Switch{{Yield: y1, From: 0, To: 1}, {Yield: y1 + y2, From: 1, To: 0}}
		env.Probe("sched-two-switch-site-uniform")
	}
	got := make([]APIResult, len(c.Calls))
	done := make([]chan struct{}, ntasks)
	fns := make([]func(), ntasks)
	for t := 0; t < ntasks; t++ {
		t := t
		done[t] = make(chan struct{})
		fns[t] = func() {
			defer close(done[t])
			for i, call := range c.Calls {
				if call.Task != t {
					continue
				}
				simrt.SetInCall(true)
				if call.Parse {
					var res APIResult
					func() {
						defer func() {
							if r := recover(); r != nil {
								res.Panic = fmt.Sprint(r)
							}
						}()
						_, err := env.Prog.ParsePatch(call.Filename, call.Src)
						if err != nil {
							res.IsErr = true
							res.Err = err.Error()
						}
					}()
					got[i] = res
				} else {
					got[i] = applyRaw(shared, call.Filename, call.Src)
				}
				simrt.SetInCall(false)
			}
		}
	}
	pol := c14MakePolicy(&sc, est)
	res := simrt.RunTasks(fns, pol, DefaultBudget, func() string { return string(debug.Stack()) })
	for t := 0; t < ntasks; t++ {
		<-done[t]
	}
	env.Probe("sched-run")
	if c.Extra["same_filename"] == "1" {
		env.Probe("sched-same-filename")
	}
	if !env.Quiet {
		env.Stats.Runs++
		env.Stats.Steps += res.Yields
	}
	switch sc.Policy {
	case "preempt":
		env.Probe("sched-preempt-sweep")
	case "pct":
		env.Probe("sched-pct")
	}
	for _, call := range c.Calls {
		if call.Parse {
			env.Probe("sched-concurrent-parse")
			break
		}
	}
	if res.Overlaps > 0 {
		env.Probe("sched-overlap")
		h := uint64(1469598103934665603)
		for _, s := range res.Switches {
			h = world.Mix(h, uint64(s.Site), uint64(s.From), uint64(s.To))
		}
		env.Seen(fmt.Sprintf("sched|%s|%x", c.Extra["patch"], h))
	}
	// the executed schedule, explicit, for the replay file
	explicit := c.Clone()
	explicit.Sched = &Sched{Policy: "explicit", Switches: res.Switches}
	hb := []byte(fmt.Sprint(len(res.Switches), res.Yields))
	for i := range got {
		hb = append(hb, got[i].Key()...)
	}
	HashBytes(hb)
	for i := range c.Calls {
		if got[i].NoProg {
			continue
		}
		if c.Calls[i].Parse {
			if got[i].IsErr != want[i].IsErr || got[i].Err != want[i].Err || (got[i].Panic != "") != (want[i].Panic != "") {
				vs = append(vs, Violation{Oracle: "concurrent", Signature: "C14/concurrent/parse", Case: explicit, Detail: fmt.Sprintf("patch.Parse running concurrently with Apply calls returned %s, alone it returns %s", clip(got[i].Key(), 200), clip(want[i].Key(), 200))})
			}
			continue
		}
		if got[i].Key() != want[i].Key() {
			what := "bytes"
			if got[i].Panic != "" {
				what = "panic"
			} else if got[i].IsErr != want[i].IsErr {
				what = "error"
			}
			vs = append(vs, Violation{Oracle: "concurrent", Signature: "C14/concurrent/" + what, Case: explicit, Detail: fmt.Sprintf("Apply call #%d (task %d, %s) on a patch shared by %d goroutines returned %s; alone it returns %s; %d context switches (policy %s)\n%s", i, c.Calls[i].Task, c.Extra["patch"], ntasks, clip(got[i].Key(), 300), clip(want[i].Key(), 300), len(res.Switches), sc.Policy, clip(got[i].Stack, 1200))})
			break
		}
	}
	env.Probe("race-log-checked")
	if rep := newRaceReports(); rep != "" {
		vs = append(vs, Violation{Oracle: "data-race", Signature: "C14/data-race/" + raceSignature(rep), Case: explicit, Detail: fmt.Sprintf("the race detector reported a data race between goroutines sharing one parsed patch (%s, %d switches):\n%s", c.Extra["patch"], len(res.Switches), clip(rep, 3500))})
	}
	if !env.Quiet {
		env.Stats.Sample(map[string]interface{}{"harness": "sched", "patch": c.Extra["patch"], "tasks": ntasks, "calls": len(c.Calls), "policy": sc.Policy, "param": sc.Param, "yields": res.Yields, "switches": len(res.Switches), "overlapping_switches": res.Overlaps, "first_switches": firstN(res.Switches, 5)}, 2)
	}
	_ = path.Base
	return vs
}

var siteFiles map[uint32]string

// shallowSite reports whether a yield site lies in the orchestration code of
// the library API or the CLI (as opposed to the engine underneath).
func shallowSite(id uint32) bool {
	if siteFiles == nil {
		siteFiles = map[uint32]string{}
		if b, err := os.ReadFile(os.Getenv("VERIF_SITES")); err == nil {
			var sites []struct {
				ID   uint32 `json:"id"`
				File string `json:"file"`
			}
			if json.Unmarshal(b, &sites) == nil {
				for _, s := range sites {
					siteFiles[s.ID] = s.File
				}
			}
		}
	}
	f := siteFiles[id]
	return strings.HasPrefix(f, "patch/") || !strings.Contains(f, "/")
}

func firstN(s []simrt.Switch, n int) []simrt.Switch {
	if len(s) > n {
		return s[:n]
	}
	return s
}
