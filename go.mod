module verif.local/verif

go 1.22
