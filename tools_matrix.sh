#!/bin/bash
# usage: tools_matrix.sh <repo-dir> own|all [seeded-id-glob]
# Applies every seeded change (rebased variant preferred, 3-way fallback) to a
# scratch copy/worktree of the repository (never /repo itself unless given) and
# runs the quick checks against it; prints one line per (change, property).
repo=$1; mode=${2:-own}; glob=${3:-*}
cd "$(dirname "$0")" || exit 2
export VERIF_REPO=$repo VERIF_EVIDENCE_DIR=${VERIF_EVIDENCE_DIR:-/tmp/matrix-evidence}
export GOFLAGS=-mod=mod GOPROXY=off GOSUMDB=off GOTOOLCHAIN=local
mkdir -p "$VERIF_EVIDENCE_DIR"
git -C "$repo" diff --quiet || { echo "refusing: $repo has uncommitted changes"; exit 2; }
for d in seeded/$glob/; do
  id=$(basename $d); [ -f $d/patch.diff ] || continue
  p=$PWD/$d/patch.diff; [ -f $d/patch_rebased.diff ] && p=$PWD/$d/patch_rebased.diff
  git -C "$repo" apply "$p" 2>/dev/null || git -C "$repo" apply --3way "$p" >/dev/null 2>&1 || { echo "$id: PATCH DOES NOT APPLY"; git -C "$repo" reset -q --hard HEAD; continue; }
  (cd "$repo" && go build ./... >/dev/null 2>&1) || { echo "$id: DOES NOT BUILD"; git -C "$repo" reset -q --hard HEAD; git -C "$repo" clean -fdq; continue; }
  own=${id%%-*}
  props=$own; [ "$mode" = all ] && props="C06 C07 C08 C12 C14 C15 C16 C18"
  for pr in $props; do
    out=$(./check $pr quick 2>&1); rc=$?
    nv=$(printf '%s\n' "$out" | grep -c '^VIOLATION')
    first=$(printf '%s\n' "$out" | grep -m1 -E '^verifsim: [a-z-]+: C[0-9]+/' | cut -c1-150)
    echo "$id $pr exit=$rc violations=$nv $first"
  done
  git -C "$repo" reset -q --hard HEAD; git -C "$repo" clean -fdq
done
