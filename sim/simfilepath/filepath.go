// Package filepath (import path verif.local/sim/simfilepath) stands in for
// path/filepath in the instrumented copy of gopatch. Pure functions delegate to
// the real package; everything that touches the filesystem is the standard
// algorithm re-hosted on the simulated os package.
package filepath

import (
	"errors"
	"io/fs"
	real "path/filepath"
	"sort"
	"strings"
	"syscall"

	os "verif.local/sim/simos"
)

const (
	Separator     = '/'
	ListSeparator = ':'
)

var (
	ErrBadPattern = real.ErrBadPattern
	SkipDir       = fs.SkipDir
	SkipAll       = fs.SkipAll
)

type WalkFunc = real.WalkFunc

func Base(p string) string                          { return real.Base(p) }
func Clean(p string) string                         { return real.Clean(p) }
func Dir(p string) string                           { return real.Dir(p) }
func Ext(p string) string                           { return real.Ext(p) }
func FromSlash(p string) string                     { return real.FromSlash(p) }
func ToSlash(p string) string                       { return real.ToSlash(p) }
func IsAbs(p string) bool                           { return real.IsAbs(p) }
func IsLocal(p string) bool                         { return real.IsLocal(p) }
func Join(elem ...string) string                    { return real.Join(elem...) }
func Match(pattern, name string) (bool, error)      { return real.Match(pattern, name) }
func Rel(basepath, targpath string) (string, error) { return real.Rel(basepath, targpath) }
func Split(p string) (dir, file string)             { return real.Split(p) }
func SplitList(p string) []string                   { return real.SplitList(p) }
func VolumeName(p string) string                    { return "" }
func HasPrefix(p, prefix string) bool               { return strings.HasPrefix(p, prefix) }

func Abs(p string) (string, error) {
	if IsAbs(p) {
		return Clean(p), nil
	}
	wd, err := os.Getwd()
	if err != nil {
		return "", err
	}
	return Join(wd, p), nil
}

func EvalSymlinks(p string) (string, error) {
	if p == "" {
		return "", nil
	}
	abs := IsAbs(p)
	parts := strings.Split(p, "/")
	var dest string
	if abs {
		dest = "/"
	}
	links := 0
	for i := 0; i < len(parts); i++ {
		c := parts[i]
		if c == "" || c == "." {
			continue
		}
		if c == ".." {
			if dest == "" || strings.HasSuffix(dest, "..") {
				dest = Join(dest, "..")
			} else {
				dest = Dir(dest)
				if dest == "." {
					dest = ""
				}
			}
			continue
		}
		next := Join(dest, c)
		if dest == "" {
			next = c
		}
		fi, err := os.Lstat(next)
		if err != nil {
			return "", err
		}
		if fi.Mode()&fs.ModeSymlink == 0 {
			if !fi.IsDir() && i < len(parts)-1 {
				rest := strings.Join(parts[i+1:], "")
				if rest != "" {
					return "", syscall.ENOTDIR // as the standard library does: a bare errno
				}
			}
			dest = next
			continue
		}
		links++
		if links > 255 {
			return "", errors.New("EvalSymlinks: too many links")
		}
		t, err := os.Readlink(next)
		if err != nil {
			return "", err
		}
		rest := append(strings.Split(t, "/"), parts[i+1:]...)
		if IsAbs(t) {
			dest = "/"
		}
		parts = rest
		i = -1
	}
	if dest == "" {
		return ".", nil
	}
	return Clean(dest), nil
}

// readDirNames reads the directory named by dirname and returns a sorted list
// of directory entry names (same as the standard library's helper).
func readDirNames(dirname string) ([]string, error) {
	f, err := os.Open(dirname)
	if err != nil {
		return nil, err
	}
	names, err := f.Readdirnames(-1)
	f.Close()
	if err != nil {
		return nil, err
	}
	sort.Strings(names)
	return names, nil
}

func walk(path string, info fs.FileInfo, walkFn WalkFunc) error {
	if !info.IsDir() {
		return walkFn(path, info, nil)
	}
	names, err := readDirNames(path)
	err1 := walkFn(path, info, err)
	if err != nil || err1 != nil {
		return err1
	}
	for _, name := range names {
		filename := Join(path, name)
		fileInfo, err := os.Lstat(filename)
		if err != nil {
			if err := walkFn(filename, fileInfo, err); err != nil && err != SkipDir {
				return err
			}
		} else {
			err = walk(filename, fileInfo, walkFn)
			if err != nil {
				if !fileInfo.IsDir() || err != SkipDir {
					return err
				}
			}
		}
	}
	return nil
}

// Walk is filepath.Walk on the simulated filesystem.
func Walk(root string, fn WalkFunc) error {
	info, err := os.Lstat(root)
	if err != nil {
		err = fn(root, nil, err)
	} else {
		err = walk(root, info, fn)
	}
	if err == SkipDir || err == SkipAll {
		return nil
	}
	return err
}

type statDirEntry struct{ info fs.FileInfo }

func (d *statDirEntry) Name() string               { return d.info.Name() }
func (d *statDirEntry) IsDir() bool                { return d.info.IsDir() }
func (d *statDirEntry) Type() fs.FileMode          { return d.info.Mode().Type() }
func (d *statDirEntry) Info() (fs.FileInfo, error) { return d.info, nil }
func (d *statDirEntry) String() string             { return fs.FormatDirEntry(d) }

func walkDir(path string, d fs.DirEntry, walkDirFn fs.WalkDirFunc) error {
	if err := walkDirFn(path, d, nil); err != nil || !d.IsDir() {
		if err == SkipDir && d.IsDir() {
			err = nil
		}
		return err
	}
	dirs, err := os.ReadDir(path)
	if err != nil {
		err = walkDirFn(path, d, err)
		if err != nil {
			if err == SkipDir && d.IsDir() {
				err = nil
			}
			return err
		}
	}
	for _, d1 := range dirs {
		path1 := Join(path, d1.Name())
		if err := walkDir(path1, d1, walkDirFn); err != nil {
			if err == SkipDir {
				break
			}
			return err
		}
	}
	return nil
}

// WalkDir is filepath.WalkDir on the simulated filesystem.
func WalkDir(root string, fn fs.WalkDirFunc) error {
	info, err := os.Lstat(root)
	if err != nil {
		err = fn(root, nil, err)
	} else {
		err = walkDir(root, &statDirEntry{info}, fn)
	}
	if err == SkipDir || err == SkipAll {
		return nil
	}
	return err
}

// Glob is filepath.Glob on the simulated filesystem.
func Glob(pattern string) (matches []string, err error) {
	if _, err := Match(pattern, ""); err != nil {
		return nil, err
	}
	if !strings.ContainsAny(pattern, `*?[\`) {
		if _, err = os.Lstat(pattern); err != nil {
			return nil, nil
		}
		return []string{pattern}, nil
	}
	dir, file := Split(pattern)
	dir = cleanGlobPath(dir)
	if !strings.ContainsAny(dir, `*?[\`) {
		return glob(dir, file, nil)
	}
	if dir == pattern {
		return nil, ErrBadPattern
	}
	var m []string
	m, err = Glob(dir)
	if err != nil {
		return
	}
	for _, d := range m {
		matches, err = glob(d, file, matches)
		if err != nil {
			return
		}
	}
	return
}

func cleanGlobPath(path string) string {
	switch path {
	case "":
		return "."
	case "/":
		return path
	default:
		return path[0 : len(path)-1]
	}
}

func glob(dir, pattern string, matches []string) (m []string, e error) {
	m = matches
	fi, err := os.Stat(dir)
	if err != nil || !fi.IsDir() {
		return
	}
	names, err := readDirNames(dir)
	if err != nil {
		return
	}
	for _, n := range names {
		matched, err := Match(pattern, n)
		if err != nil {
			return m, err
		}
		if matched {
			m = append(m, Join(dir, n))
		}
	}
	return
}
