package world

// PRNG is a SplitMix64-seeded xoshiro256** generator. It is implemented here
// so that replay never depends on math/rand internals.
type PRNG struct{ s [4]uint64 }

func splitmix(x *uint64) uint64 {
	*x += 0x9e3779b97f4a7c15
	z := *x
	z = (z ^ (z >> 30)) * 0xbf58476d1ce4e5b9
	z = (z ^ (z >> 27)) * 0x94d049bb133111eb
	return z ^ (z >> 31)
}

// NewPRNG seeds a generator.
func NewPRNG(seed uint64) *PRNG {
	p := &PRNG{}
	x := seed
	for i := range p.s {
		p.s[i] = splitmix(&x)
	}
	return p
}

// Mix derives a sub-stream seed from a seed and labels.
func Mix(seed uint64, labels ...uint64) uint64 {
	x := seed
	h := splitmix(&x)
	for _, l := range labels {
		x = h ^ (l * 0x9e3779b97f4a7c15)
		h = splitmix(&x)
	}
	return h
}

// MixS mixes a string label.
func MixS(seed uint64, s string) uint64 {
	h := uint64(14695981039346656037)
	for i := 0; i < len(s); i++ {
		h ^= uint64(s[i])
		h *= 1099511628211
	}
	return Mix(seed, h)
}

func rotl(x uint64, k uint) uint64 { return (x << k) | (x >> (64 - k)) }

// Uint64 returns the next value.
func (p *PRNG) Uint64() uint64 {
	s := &p.s
	r := rotl(s[1]*5, 7) * 9
	t := s[1] << 17
	s[2] ^= s[0]
	s[3] ^= s[1]
	s[1] ^= s[2]
	s[0] ^= s[3]
	s[2] ^= t
	s[3] = rotl(s[3], 45)
	return r
}

// Intn returns a value in [0,n). n must be > 0.
func (p *PRNG) Intn(n int) int {
	if n <= 0 {
		return 0
	}
	return int(p.Uint64() % uint64(n))
}

// Range returns a value in [lo,hi].
func (p *PRNG) Range(lo, hi int) int {
	if hi <= lo {
		return lo
	}
	return lo + p.Intn(hi-lo+1)
}

// Chance returns true with probability num/den.
func (p *PRNG) Chance(num, den int) bool { return p.Intn(den) < num }

// Float returns a value in [0,1).
func (p *PRNG) Float() float64 { return float64(p.Uint64()>>11) / (1 << 53) }

// Pick returns a random element of ss.
func (p *PRNG) Pick(ss []string) string { return ss[p.Intn(len(ss))] }

// Perm returns a permutation of 0..n-1.
func (p *PRNG) Perm(n int) []int {
	a := make([]int, n)
	for i := range a {
		a[i] = i
	}
	for i := n - 1; i > 0; i-- {
		j := p.Intn(i + 1)
		a[i], a[j] = a[j], a[i]
	}
	return a
}
