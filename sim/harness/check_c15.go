package harness

import (
	"bytes"
	"fmt"
	"path"
	"sort"
	"strings"

	"verif.local/sim/world"
)

// C15 — Exactly the requested Go files are processed, each once.
type c15 struct{}

func init() { Register(c15{}) }

func (c15) ID() string { return "C15" }

func (c15) NumCases(tier string) int {
	if tier == "thorough" {
		return 1_200_000
	}
	return 40_000
}

func (c15) Describe() CheckInfo {
	return CheckInfo{
		Level: "exploration",
		Rule: "seeded directory trees (5-60 nodes, depth <= 4; excluded names vendor/testdata/.x/_x at any depth; look-alikes vendor2/testdata_old; directories named x.go; non-Go files; dot- and underscore-named Go files; symlinks to files, directories, dangling and cyclic; a fifo named like a Go file; unparseable Go files inside excluded directories) x 1-5 arguments (relative, absolute, ./, trailing / and ..., a/../a respellings, '.', overlapping, duplicated, files named explicitly inside excluded directories, non-Go files named explicitly), with a non-idempotent patch so that double processing shows in the bytes. " +
			"Reference: a walk written from the property text. Each case is run in-place and with --print-only, then again with the arguments permuted and respelled and the readdir order reshuffled. distinct = distinct (tree-shape hash, argument-form multiset)",
		Assumptions: []string{
			"cases the text leaves open are not generated: an excluded-name directory given as (part of) the argument itself, nonexistent paths (C16); arguments that reach a file or directory through a symlinked directory are generated: the file is identified by its resolved path and processed once, and the output order must not depend on the order or spelling of the arguments; a symlink named directly as an argument (with or without /...) is generated and expected to contribute nothing ('no symlinks')",
			"two hard-linked names of one inode are two files: each is processed once",
			"'processed' is judged by effects (bytes, print-only segment, created/modified nodes), not by how often a file is read",
		},
		RealCode:       []string{"gopatch main()/mainCmd.Run, findFiles/findGoFiles, internal/*"},
		Stubs:          []string{"package os (simulated filesystem incl. symlinks, fifo, shuffled readdir)", "path/filepath Walk re-hosted on the simulated os", "io/ioutil"},
		RequiredProbes: []string{"requested-file-without-declarations", "working-directory-gone", "excluded-dir-nested", "symlink-to-dir", "symlink-to-file", "dir-named-like-go-file", "overlapping-args", "duplicate-args", "explicit-file-in-excluded-dir", "dotdot-respelling", "absolute-arg", "non-go-file", "absolute-noncanonical-arg", "readdir-shuffled", "permuted-rerun", "dot-named-go-file", "hard-link", "non-directory-with-excluded-name", "symlink-argument", "unparseable-file-in-requested-set", "excluded-dir-named-like-go-file", "argument-through-symlinked-directory", "name-with-pattern-characters", "resolved-path-beyond-path-max", "many-unparseable-files", "file-named-like-sibling-directory", "names-differing-only-in-case", "many-skipped-generated-files-under-descriptor-limit", "nine-byte-go-file"},
	}
}

var c15DirNames = []string{"a", "b", "pkg", "internal", "cmd", "vendor", "testdata", ".git", ".x", "_gen", "_", "vendor2", "testdata_old", "x.go", "sub", "v.endor", "Vendor", "_old.go", ".bak.go", "vendor.go", "testdata.go", ".go", "api[v2]", "apiv", "api2", "w*ld", "wild", "pkg-v2", "a.b", "a-b", "2024", "01-02"}

func c15Excluded(name string) bool {
	return name == "vendor" || name == "testdata" || strings.HasPrefix(name, ".") || strings.HasPrefix(name, "_")
}

func c15GoFile(id int) []byte {
	return []byte(fmt.Sprintf("package sample\n\n// unit %d\nfunc unit%d() int {\n\treturn vfCnt1 * %d\n}\n", id, id, id%7+2))
}

const c15Patch = "@@\n@@\n-vfCnt1\n+vfCnt1 + 1\n"

func (c15) Gen(env *Env, seed uint64, tier string, i int) *Case {
	r := world.NewPRNG(world.Mix(seed, 15, uint64(i)))
	c := NewCLICase("C15", "tree", i, seed)
	c.AddPatch("p0.patch", r.Pick([]string{"p", "p", "stdin", "P"}), []byte(c15Patch), nil, []string{"vfCnt1"})
	// --- tree
	dirs := []string{ProjDir}
	ndirs := r.Range(1, 9)
	for d := 0; d < ndirs; d++ {
		parent := dirs[r.Intn(len(dirs))]
		if strings.Count(strings.TrimPrefix(parent, ProjDir), "/") >= 4 {
			continue
		}
		p := parent + "/" + r.Pick(c15DirNames)
		dup := false
		for _, x := range dirs {
			if x == p {
				dup = true
			}
		}
		if dup {
			continue
		}
		dirs = append(dirs, p)
		c.SetNode(world.NodeSpec{Path: p, Kind: "dir"})
	}
	id := 0
	var gofiles, others, symlinks []string
	broken := map[string]bool{}
	wantBroken := r.Chance(1, 6)
	insideExcluded := func(p string) bool {
		rel := strings.TrimPrefix(p, ProjDir+"/")
		parts := strings.Split(rel, "/")
		for _, x := range parts[:len(parts)-1] {
			if c15Excluded(x) {
				return true
			}
		}
		return false
	}
	nfiles := r.Range(3, 24)
	for f := 0; f < nfiles; f++ {
		d := dirs[r.Intn(len(dirs))]
		id++
		switch roll := r.Intn(100); {
		case roll < 62:
			name := fmt.Sprintf("f%d.go", id)
			switch r.Intn(13) {
			case 0:
				name = fmt.Sprintf(".h%d.go", id)
			case 1:
				name = fmt.Sprintf("_u%d.go", id)
			case 2:
				name = fmt.Sprintf("f%d_test.go", id)
			case 5:
				// two names that differ only in case, side by side
				name = fmt.Sprintf("Report%d.go", id)
				sib := d + "/" + fmt.Sprintf("report%d.go", id)
				c.SetNode(world.NodeSpec{Path: sib, Kind: "file", Data: c15GoFile(id + 700)})
				gofiles = append(gofiles, sib)
				c.Extra["case_pair"] = "1"
			case 4:
				// a file named like a sibling directory plus ".go": "pkg.go" next to
				// "pkg/" - their order as paths is not their order in a directory walk
				if d2 := dirs[r.Intn(len(dirs))]; d2 != ProjDir && !strings.HasSuffix(d2, ".go") {
					taken := false
					for _, n := range c.Spec.Nodes {
						if n.Path == d2+".go" || strings.HasPrefix(n.Path, d2+".go/") {
							taken = true
						}
					}
					if !taken {
						d = path.Dir(d2)
						name = path.Base(d2) + ".go"
						c.Extra["dir_stem_file"] = "1"
					}
				}
			case 3:
				// a name that is also a shell pattern, next to a file the pattern matches
				g := [][2]string{{"t%d[x].go", "t%dx.go"}, {"q%d?.go", "q%da.go"}, {"s%d*r.go", "s%dtar.go"}, {"[a-z]%d.go", "b%d.go"}}[r.Intn(4)]
				name = fmt.Sprintf(g[0], id)
				sib := d + "/" + fmt.Sprintf(g[1], id)
				c.SetNode(world.NodeSpec{Path: sib, Kind: "file", Data: c15GoFile(id + 500)})
				gofiles = append(gofiles, sib)
				c.Extra["glob_name"] = "1"
			}
			p := d + "/" + name
			data := c15GoFile(id)
			if !insideExcluded(p) && wantBroken && len(broken) == 0 {
				// an unparseable file among the requested ones: it fails, every
				// other requested file must be processed all the same
				data = []byte("package broken\n\nfunc {{{ vfCnt1\n")
				c.SetNode(world.NodeSpec{Path: p, Kind: "file", Data: data})
				broken[p] = true
				gofiles = append(gofiles, p)
				continue
			}
			if insideExcluded(p) && r.Chance(1, 4) {
				// would produce an error if it were (wrongly) processed;
				// never named explicitly
				data = []byte("package broken\n\nfunc {{{ vfCnt1\n")
				c.SetNode(world.NodeSpec{Path: p, Kind: "file", Data: data})
				continue
			}
			if r.Chance(1, 14) {
				// a requested Go file without a single declaration: nothing matches in
				// it, it is still one of the files that --print-only echoes
				data = []byte(fmt.Sprintf("// Package sample, part %d.\npackage sample // only a clause\n", id))
				c.Extra["no_decls"] = "1"
				if c.Extra["smallest_file"] == "" && r.Chance(1, 2) {
					// the smallest Go file there is: nine bytes, no final newline
					// (at most one per world, its echo cannot be told from a twin's)
					data = []byte("package p")
					c.Extra["smallest_file"] = "1"
				}
			}
			ns := world.NodeSpec{Path: p, Kind: "file", Data: data}
			if r.Chance(1, 10) {
				// permission bits of every kind: a requested file is a requested file
				ns.Mode = []uint32{0o444, 0o400, 0o555, 0o464, 0o600, 0o755, 0o666}[r.Intn(7)]
				c.Extra["odd_mode"] = "1"
			}
			c.SetNode(ns)
			gofiles = append(gofiles, p)
		case roll < 80:
			name := r.Pick([]string{"notes.txt", "go.mod", "README.md", "x.go.bak", "gen.go~", "Makefile", "data.gox", "go", ".go.swp"})
			p := d + "/" + fmt.Sprintf("%d_%s", id, name)
			if r.Chance(1, 3) {
				p = d + "/" + name
			}
			c.SetNode(world.NodeSpec{Path: p, Kind: "file", Data: c15GoFile(id)})
			others = append(others, p)
		case roll < 86 && len(gofiles) > 0:
			p := d + "/" + fmt.Sprintf("ln%d.go", id)
			c.SetNode(world.NodeSpec{Path: p, Kind: "symlink", Target: gofiles[r.Intn(len(gofiles))]})
			symlinks = append(symlinks, p)
			c.Extra["has_symlink_file"] = "1"
		case roll < 92:
			p := d + "/" + fmt.Sprintf("lnd%d", id)
			t := dirs[r.Intn(len(dirs))]
			if r.Chance(1, 2) {
				t = ".." // cycle through the parent
			}
			c.SetNode(world.NodeSpec{Path: p, Kind: "symlink", Target: t})
			symlinks = append(symlinks, p)
			c.Extra["has_symlink_dir"] = "1"
		case roll < 95:
			p := d + "/" + fmt.Sprintf("dangling%d.go", id)
			c.SetNode(world.NodeSpec{Path: p, Kind: "symlink", Target: "/sim/w/nowhere.go"})
			symlinks = append(symlinks, p)
		case roll < 96:
			c.SetNode(world.NodeSpec{Path: d + "/" + fmt.Sprintf("pipe%d.go", id), Kind: "fifo"})
		case roll < 98 && len(gofiles) > 0:
			// a second name (hard link) for an existing Go file
			t := gofiles[r.Intn(len(gofiles))]
			if broken[t] {
				continue
			}
			p := d + "/" + fmt.Sprintf("hl%d.go", id)
			c.SetNode(world.NodeSpec{Path: p, Kind: "hardlink", Target: t})
			gofiles = append(gofiles, p)
			c.Extra["has_hardlink"] = "1"
		case roll < 99:
			// a NON-directory that carries an excluded directory's name
			nm := r.Pick([]string{"vendor", "testdata", ".x", "_gen"})
			p := d + "/" + nm
			taken := false
			for _, n := range c.Spec.Nodes {
				if n.Path == p || strings.HasPrefix(n.Path, p+"/") {
					taken = true
				}
			}
			if taken {
				continue
			}
			dirs2 := dirs[:0:0]
			_ = dirs2
			if r.Chance(1, 2) {
				c.SetNode(world.NodeSpec{Path: p, Kind: "file", Data: []byte("not a directory\n")})
			} else {
				c.SetNode(world.NodeSpec{Path: p, Kind: "symlink", Target: dirs[r.Intn(len(dirs))]})
			}
			c.Extra["has_nondir_excluded_name"] = "1"
		default:
			p := d + "/" + fmt.Sprintf("f%d.go", id)
			c.SetNode(world.NodeSpec{Path: p, Kind: "file", Data: c15GoFile(id)})
			gofiles = append(gofiles, p)
		}
	}
	if r.Chance(1, 30) {
		// dozens of generated files, --skip-generated and a tight descriptor limit:
		// skipping a file must release what was opened for it
		for k := 0; k < 36; k++ {
			id++
			p := fmt.Sprintf("%s/api/g%02d.pb.go", ProjDir, k)
			c.SetNode(world.NodeSpec{Path: p, Kind: "file", Data: append([]byte("// Code generated by protoc-gen-go. DO NOT EDIT.\n\n"), c15GoFile(id)...)})
			gofiles = append(gofiles, p)
		}
		for k := 0; k < 3; k++ {
			id++
			p := fmt.Sprintf("%s/svc/s%d.go", ProjDir, k)
			c.SetNode(world.NodeSpec{Path: p, Kind: "file", Data: c15GoFile(id)})
			gofiles = append(gofiles, p)
		}
		c.Targets = append(c.Targets, ProjDir)
		c.Extra["many_generated"] = "1"
	}
	if r.Chance(1, 40) {
		// a dozen requested files that do not parse, and good ones after them
		for k := 0; k < 12; k++ {
			p := fmt.Sprintf("%s/e%02d_broken.go", ProjDir, k)
			c.SetNode(world.NodeSpec{Path: p, Kind: "file", Data: []byte("package broken\n\nfunc {{{ vfCnt1\n")})
			broken[p] = true
			gofiles = append(gofiles, p)
		}
		for k := 0; k < 2; k++ {
			id++
			p := fmt.Sprintf("%s/zz_after%d.go", ProjDir, k)
			c.SetNode(world.NodeSpec{Path: p, Kind: "file", Data: c15GoFile(id)})
			gofiles = append(gofiles, p)
		}
		c.Targets = append(c.Targets, ProjDir)
		c.Extra["many_broken"] = "1"
	}
	if len(broken) > 0 {
		var bl []string
		for p := range broken {
			bl = append(bl, p)
		}
		sort.Strings(bl)
		c.Extra["broken"] = strings.Join(bl, "\n")
	}
	if len(gofiles) == 0 {
		p := ProjDir + "/f0.go"
		c.SetNode(world.NodeSpec{Path: p, Kind: "file", Data: c15GoFile(0)})
		gofiles = append(gofiles, p)
	}
	// --- arguments (stored in absolute form; spelled at evaluation time)
	okDirArg := func(d string) bool {
		if d == ProjDir {
			return true
		}
		rel := strings.TrimPrefix(d, ProjDir+"/")
		for _, x := range strings.Split(rel, "/") {
			if c15Excluded(x) {
				return false // open case: excluded name as (part of) the argument itself
			}
		}
		return true
	}
	// a directory whose resolved path is longer than PATH_MAX, reachable through
	// short symbolic links: the files in it are perfectly accessible, only their
	// canonical path cannot be handed to the kernel in one piece
	if r.Chance(1, 25) {
		seg := strings.Repeat("z", 200)
		top := ProjDir + "/_deep" // pruned when the project directory itself is walked
		mid := top
		for k := 0; k < 19; k++ {
			mid += "/" + seg
		}
		bottom := mid + "/" + seg + "/" + seg + "/pkg"
		c.SetNode(world.NodeSpec{Path: bottom, Kind: "dir"})
		for k := 0; k < 2; k++ {
			id++
			c.SetNode(world.NodeSpec{Path: fmt.Sprintf("%s/f%d.go", bottom, id), Kind: "file", Data: c15GoFile(id)})
		}
		links := []string{ProjDir + "/da", ProjDir + "/db"}
		for _, l := range links {
			c.SetNode(world.NodeSpec{Path: l, Kind: "symlink", Target: mid})
		}
		for _, l := range links[:r.Range(1, 2)] {
			c.Targets = append(c.Targets, l+"/"+seg+"/"+seg+r.Pick([]string{"/pkg", "", "/pkg/" + fmt.Sprintf("f%d.go", id)}))
		}
		c.Extra["alias_arg"] = "1"
		c.Extra["beyond_path_max"] = "1"
	}
	// arguments that reach a file or directory THROUGH a symlinked directory
	// (the last component is real): the same file may then be named under two
	// different paths, and must still be processed once
	type alias struct{ link, realDir string }
	var aliases []alias
	if len(symlinks) > 0 {
		w := world.New(c.Spec)
		for _, l := range symlinks {
			if strings.HasSuffix(l, ".go") {
				continue
			}
			if real, n := w.RealPath(l, true); n != nil && n.Kind == world.KDir && strings.HasPrefix(real+"/", ProjDir+"/") {
				aliases = append(aliases, alias{l, real})
			}
		}
	}
	viaAlias := func(al alias, realPath string) string {
		if realPath == al.realDir {
			return ""
		}
		if !strings.HasPrefix(realPath, al.realDir+"/") {
			return ""
		}
		return al.link + strings.TrimPrefix(realPath, al.realDir)
	}
	nargs := r.Range(1, 5)
	for a := 0; a < nargs; a++ {
		if len(aliases) > 0 && r.Chance(1, 4) {
			al := aliases[r.Intn(len(aliases))]
			var cands []string
			for _, g := range gofiles {
				if p := viaAlias(al, g); p != "" {
					cands = append(cands, p)
				}
			}
			for _, d := range dirs {
				if p := viaAlias(al, d); p != "" && okDirArg(d) && okDirArg(path.Dir(al.link)) {
					cands = append(cands, p)
				}
			}
			if len(cands) > 0 {
				c.Targets = append(c.Targets, cands[r.Intn(len(cands))])
				c.Extra["alias_arg"] = "1"
				continue
			}
		}
		switch roll := r.Intn(100); {
		case roll < 45:
			d := dirs[r.Intn(len(dirs))]
			if !okDirArg(d) {
				continue
			}
			c.Targets = append(c.Targets, d)
		case roll < 75:
			c.Targets = append(c.Targets, gofiles[r.Intn(len(gofiles))])
		case roll < 85 && len(others) > 0:
			c.Targets = append(c.Targets, others[r.Intn(len(others))])
		case roll < 90 && len(symlinks) > 0:
			// a symlink named directly: never followed, nothing is processed through it
			c.Targets = append(c.Targets, symlinks[r.Intn(len(symlinks))])
			c.Extra["symlink_arg"] = "1"
		case roll < 95 && len(c.Targets) > 0:
			c.Targets = append(c.Targets, c.Targets[r.Intn(len(c.Targets))]) // duplicate
		default:
			c.Targets = append(c.Targets, ProjDir)
		}
	}
	if len(c.Targets) == 0 {
		c.Targets = []string{ProjDir}
	}
	c.Flags = Flags{Verbose: r.Chance(1, 4), SkipImport: r.Chance(1, 5), SkipGen: r.Chance(1, 5)}
	if c.Extra["many_generated"] == "1" {
		c.Flags.SkipGen = true
		c.Spec.Knobs.MaxOpenFiles = r.Range(8, 16)
	}
	c.Spec.Knobs.ShuffleReaddir = r.Chance(2, 3)
	c.Extra["spell"] = fmt.Sprint(r.Uint64())
	c.Extra["absargs"] = strings.Join(c.Targets, "\n")
	c.Targets = c15Spell(c.Targets, world.NewPRNG(r.Uint64()), c)
	c.RebuildArgs()
	return c
}

// c15Spell turns absolute argument paths into randomly spelled ones.
func c15Spell(abs []string, r *world.PRNG, c *Case) []string {
	var out []string
	for _, a := range abs {
		rel := strings.TrimPrefix(a, ProjDir)
		rel = strings.TrimPrefix(rel, "/")
		isDir := false
		for _, n := range c.Spec.Nodes {
			if n.Path == a && (n.Kind == "dir" || (n.Kind == "symlink" && !strings.HasSuffix(n.Path, ".go"))) {
				isDir = true
			}
		}
		s := rel
		if s == "" {
			s = "."
		}
		switch r.Intn(9) {
		case 7:
			// absolute but not canonical: /./, //, /x/../
			idx := strings.LastIndex(a, "/")
			switch r.Intn(3) {
			case 0:
				s = a[:idx] + "/." + a[idx:]
			case 1:
				s = a[:idx] + "/" + a[idx:]
			default:
				s = ProjDir + "/../proj" + strings.TrimPrefix(a, ProjDir)
			}
		case 8:
			s = "./" + s + ""
			if rel != "" {
				s = "./" + strings.Replace(rel, "/", "//", 1)
			}
		case 0:
			s = a // absolute
		case 1:
			s = "./" + s
		case 2:
			// a/../a respelling
			if rel != "" {
				first := strings.SplitN(rel, "/", 2)[0]
				if isDirNode(c, ProjDir+"/"+first) {
					s = first + "/../" + rel
				}
			}
		case 3:
			s = a + "/"
			if !isDir {
				s = a
			}
		}
		if isDir {
			switch r.Intn(4) {
			case 0:
				s = strings.TrimSuffix(s, "/") + "/..."
			case 1:
				if !strings.HasSuffix(s, "/") && s != "." {
					s += "/"
				}
			}
		}
		out = append(out, s)
	}
	return out
}

func isDirNode(c *Case, p string) bool {
	for _, n := range c.Spec.Nodes {
		if n.Path == p {
			return n.Kind == "dir"
		}
	}
	return false
}

// c15Reference computes, from the property text, the set of files to process.
func c15Reference(c *Case, w *world.World) []string {
	set := map[string]bool{}
	var rec func(dir string, n *world.Inode)
	rec = func(dir string, n *world.Inode) {
		for name, ch := range n.Children {
			p := dir + "/" + name
			switch ch.Kind {
			case world.KFile:
				if strings.HasSuffix(name, ".go") {
					set[p] = true
				}
			case world.KDir:
				if !c15Excluded(name) {
					rec(p, ch)
				}
			}
		}
	}
	for _, a := range strings.Split(c.Extra["absargs"], "\n") {
		if a == "" {
			continue
		}
		// symbolic links in the directory part of an argument are resolved by the
		// kernel; the last component is never followed
		p, n := w.RealPath(path.Clean(a), false)
		if n == nil {
			continue
		}
		switch n.Kind {
		case world.KFile:
			if strings.HasSuffix(p, ".go") {
				set[p] = true
			}
		case world.KDir:
			rec(p, n)
		}
	}
	var out []string
	for p := range set {
		if c.Flags.SkipGen {
			// with --skip-generated a generated file is legitimately left alone (C18)
			if n := w.Peek(p); n != nil && bytes.HasPrefix(n.Data, []byte("// Code generated")) {
				continue
			}
		}
		out = append(out, p)
	}
	sort.Strings(out)
	return out
}

func (c15) Eval(env *Env, c *Case) []Violation {
	var vs []Violation
	// a replayed case of the working-directory-gone family carries its fault plan,
	// environment and extra nodes; everything else runs without them
	explicitFaults := len(c.Spec.Faults) > 0
	if explicitFaults {
		c = c.Clone()
		c.Spec.Faults, c.Spec.Env = nil, nil
		c.DropFile(SimRoot + "/elsewhere/e.go")
		c.DropFile(SimRoot + "/elsewhere/sub/f.go")
		var nodes []world.NodeSpec
		for _, n := range c.Spec.Nodes {
			if !strings.HasPrefix(n.Path, SimRoot+"/elsewhere") {
				nodes = append(nodes, n)
			}
		}
		c.Spec.Nodes = nodes
	}
	seen := map[string]bool{}
	add := func(oracle, sig, detail string) {
		s := "C15/" + oracle + "/" + sig
		if seen[s] {
			return
		}
		seen[s] = true
		vs = append(vs, Violation{Oracle: oracle, Signature: s, Detail: detail})
	}
	w0 := world.New(c.Spec)
	init := w0.Snapshot()
	expected := c15Reference(c, w0)
	expSet := map[string]bool{}
	for _, p := range expected {
		expSet[p] = true
	}
	// probes about the shape
	absargs := strings.Split(c.Extra["absargs"], "\n")
	shape := []string{}
	for _, n := range c.Spec.Nodes {
		rel := strings.TrimPrefix(n.Path, ProjDir+"/")
		parts := strings.Split(rel, "/")
		if n.Kind == "dir" && len(parts) > 1 && c15Excluded(parts[len(parts)-1]) {
			env.Probe("excluded-dir-nested")
		}
		if n.Kind == "dir" && strings.HasSuffix(n.Path, ".go") {
			env.Probe("dir-named-like-go-file")
			if c15Excluded(parts[len(parts)-1]) {
				env.Probe("excluded-dir-named-like-go-file")
			}
		}
		if n.Kind == "file" && !strings.HasSuffix(n.Path, ".go") {
			env.Probe("non-go-file")
		}
		if n.Kind == "file" && (strings.HasPrefix(path.Base(n.Path), ".") || strings.HasPrefix(path.Base(n.Path), "_")) && strings.HasSuffix(n.Path, ".go") {
			env.Probe("dot-named-go-file")
		}
		shape = append(shape, n.Kind+":"+strings.Join(parts, "/"))
	}
	if c.Extra["has_symlink_dir"] == "1" {
		env.Probe("symlink-to-dir")
	}
	if c.Extra["has_symlink_file"] == "1" {
		env.Probe("symlink-to-file")
	}
	if c.Extra["has_hardlink"] == "1" {
		env.Probe("hard-link")
	}
	if c.Extra["glob_name"] == "1" {
		env.Probe("name-with-pattern-characters")
	}
	if c.Extra["dir_stem_file"] == "1" {
		env.Probe("file-named-like-sibling-directory")
	}
	if c.Extra["smallest_file"] == "1" {
		env.Probe("nine-byte-go-file")
	}
	if c.Extra["case_pair"] == "1" {
		env.Probe("names-differing-only-in-case")
	}
	if c.Extra["many_generated"] == "1" {
		env.Probe("many-skipped-generated-files-under-descriptor-limit")
	}
	if c.Extra["beyond_path_max"] == "1" {
		env.Probe("resolved-path-beyond-path-max")
	}
	if c.Extra["has_nondir_excluded_name"] == "1" {
		env.Probe("non-directory-with-excluded-name")
	}
	if c.Extra["symlink_arg"] == "1" {
		env.Probe("symlink-argument")
	}
	for i, a := range absargs {
		for j, b := range absargs {
			if i < j && a == b {
				env.Probe("duplicate-args")
			} else if i != j && strings.HasPrefix(b, a+"/") {
				env.Probe("overlapping-args")
			}
		}
		if a != ProjDir {
			rel := strings.TrimPrefix(a, ProjDir+"/")
			parts := strings.Split(rel, "/")
			for _, x := range parts[:len(parts)-1] {
				if c15Excluded(x) && expSet[a] {
					env.Probe("explicit-file-in-excluded-dir")
				}
			}
		}
	}
	forms := []string{}
	for _, t := range c.Targets {
		f := ""
		if strings.HasPrefix(t, "/") {
			f += "abs"
			env.Probe("absolute-arg")
			if strings.Contains(t, "/./") || strings.Contains(t, "//") || strings.Contains(t, "/../") {
				f += "noncanon"
				env.Probe("absolute-noncanonical-arg")
			}
		}
		if strings.Contains(t, "/../") {
			f += "dotdot"
			env.Probe("dotdot-respelling")
		}
		if strings.HasSuffix(t, "...") {
			f += "dots"
		}
		if strings.HasPrefix(t, "./") {
			f += "dotslash"
		}
		forms = append(forms, f)
	}
	sort.Strings(forms)
	sort.Strings(shape)
	env.Seen(fmt.Sprintf("%x|%s", world.MixS(0, strings.Join(shape, ";")), strings.Join(forms, ",")))
	if c.Spec.Knobs.ShuffleReaddir {
		env.Probe("readdir-shuffled")
	}

	// reference result of each expected file: a solo run in a world of its own
	soloCache := map[string][]byte{}
	solo := func(p string, data []byte) []byte {
		if b, ok := soloCache[string(data)]; ok {
			return b
		}
		sc := NewCLICase("C15", "solo", 0, 0)
		sc.AddPatch("p0.patch", "p", []byte(c15Patch), nil, nil)
		sc.SetNode(world.NodeSpec{Path: ProjDir + "/solo.go", Kind: "file", Data: data})
		sc.Flags = Flags{Print: true, SkipImport: c.Flags.SkipImport}
		sc.Targets = []string{"solo.go"}
		sc.RebuildArgs()
		r := RunCLI(env.Prog, sc.Spec)
		var out []byte
		if r.Outcome == OutExit && r.Exit == 0 {
			out = r.Stdout
		}
		soloCache[string(data)] = out
		return out
	}
	origData := map[string][]byte{}
	for _, s := range init {
		if s.Kind == world.KFile {
			origData[s.Path] = s.Data
		}
	}
	var wantPrint bytes.Buffer
	wantFinal := map[string][]byte{}
	brokenSet := map[string]bool{}
	brokenP := ""
	for _, p := range strings.Split(c.Extra["broken"], "\n") {
		if p != "" && expSet[p] {
			brokenSet[p] = true
			brokenP = p
		}
	}
	brokenExpected := len(brokenSet) > 0
	if brokenExpected {
		env.Probe("unparseable-file-in-requested-set")
	}
	if len(brokenSet) > 10 {
		env.Probe("many-unparseable-files")
	}
	for _, p := range expected {
		if brokenSet[p] {
			// fails to parse: stays as it is, prints nothing
			wantFinal[p] = origData[p]
			continue
		}
		var b []byte
		if !bytes.Contains(origData[p], []byte("vfCnt1")) {
			// nothing in it for the patch: echoed as it is (the reference does not
			// ask the program under test)
			b = origData[p]
			env.Probe("requested-file-without-declarations")
		} else {
			b = solo(p, origData[p])
		}
		if b == nil {
			env.Probe("solo-reference-failed")
			return nil
		}
		wantFinal[p] = b
		wantPrint.Write(b)
	}

	judgeInPlace := func(r *RunResult, tag string) {
		if r.Outcome != OutExit {
			env.Probe("run-did-not-exit")
			return
		}
		if brokenExpected {
			if r.Exit == 0 {
				add("clean-run", "unparseable-file-not-reported/"+tag, fmt.Sprintf("exit 0 although the requested file %s does not parse (args %v)", brokenP, r.W.Args))
			}
		} else if r.Exit != 0 || len(r.Stderr) != 0 {
			add("clean-run", "error/"+tag, fmt.Sprintf("exit %d, stderr %q (args %v); a file outside the requested set was probably processed", r.Exit, clip(string(r.Stderr), 400), r.W.Args))
		}
		fin := map[string]world.FileState{}
		for _, s := range r.Final {
			fin[s.Path] = s
		}
		for _, s := range init {
			g, ok := fin[s.Path]
			if !ok {
				add("touched-other", "removed/"+tag, fmt.Sprintf("%s was removed (args %v)", s.Path, r.W.Args))
				continue
			}
			if expSet[s.Path] {
				switch {
				case bytes.Equal(g.Data, wantFinal[s.Path]):
				case brokenSet[s.Path]:
					add("touched-other", "unparseable-file-modified/"+tag, fmt.Sprintf("%s does not parse but was modified (args %v)", s.Path, r.W.Args))
				case bytes.Equal(g.Data, s.Data):
					add("not-processed", tag, fmt.Sprintf("%s should have been processed but is unchanged (args %v, expected set %v)", s.Path, r.W.Args, expected))
				default:
					add("processed-wrongly", tag, fmt.Sprintf("%s was not processed exactly once: got %q, one application gives %q (args %v)", s.Path, clip(string(g.Data), 200), clip(string(wantFinal[s.Path]), 200), r.W.Args))
				}
				continue
			}
			if s.Kind == world.KDir {
				continue
			}
			if g.Kind != s.Kind || !bytes.Equal(g.Data, s.Data) || g.Target != s.Target || g.Ino != s.Ino || g.Mtime != s.Mtime || g.Perm != s.Perm {
				what := "a file outside the requested set"
				add("touched-other", kindOf(s, c)+"/"+tag, fmt.Sprintf("%s (%s) was modified: %s; args %v", s.Path, s.Kind, what, r.W.Args))
			}
		}
		for p := range fin {
			found := false
			for _, s := range init {
				if s.Path == p {
					found = true
				}
			}
			if !found {
				add("touched-other", "created/"+tag, fmt.Sprintf("%s was created (args %v)", p, r.W.Args))
			}
		}
	}
	judgePrint := func(r *RunResult, tag string) {
		if r.Outcome != OutExit {
			return
		}
		out := string(r.Stdout)
		if c.Flags.Verbose {
			// -v log lines: "<absolute path as gopatch knows it>: patched"
			var kept []string
			isLog := func(l string) bool {
				if strings.HasPrefix(l, "/") && (strings.HasSuffix(l, ": patched\n") || strings.HasSuffix(l, ": skipped\n")) {
					return true
				}
				return strings.HasPrefix(l, "generated file /") && strings.HasSuffix(l, ": skipped\n")
			}
			for _, l := range strings.SplitAfter(out, "\n") {
				if isLog(l) {
					continue
				}
				if c.Extra["smallest_file"] == "1" && strings.HasPrefix(l, "package p") && isLog(l[len("package p"):]) {
					// the one file without a final newline: the log line follows it on the same line
					kept = append(kept, "package p")
					continue
				}
				kept = append(kept, l)
			}
			out = strings.Join(kept, "")
		}
		if c.Extra["alias_arg"] == "1" && out != wantPrint.String() {
			// with two names for one file "path order" is not defined by the text;
			// require each requested file exactly once, in any order (the order must
			// still be the same for every spelling: checked below)
			rest := out
			left := map[string]bool{}
			for _, p := range expected {
				if len(wantFinal[p]) > 0 && !brokenSet[p] {
					left[p] = true
				}
			}
			for progress := true; progress && len(rest) > 0; {
				progress = false
				for _, p := range expected {
					if left[p] && strings.HasPrefix(rest, string(wantFinal[p])) {
						rest = rest[len(wantFinal[p]):]
						delete(left, p)
						progress = true
						break
					}
				}
			}
			if rest == "" && len(left) == 0 {
				out = wantPrint.String()
			}
		}
		if out != wantPrint.String() {
			// classify
			sig := "differs"
			for _, p := range expected {
				if strings.Count(out, string(wantFinal[p])) > 1 {
					sig = "duplicate"
				}
			}
			add("print-order", sig+"/"+tag, fmt.Sprintf("--print-only output is not the concatenation, in path order, of the %d requested files processed once each (args %v)\n got: %q\nwant: %q", len(expected), r.W.Args, clip(out, 500), clip(wantPrint.String(), 500)))
		}
		if d := SnapEqual(init, r.Final); d != "" {
			add("touched-other", "print-mode-wrote/"+tag, d)
		}
		if !brokenExpected && (r.Exit != 0 || len(r.Stderr) != 0) {
			add("clean-run", "error-print/"+tag, fmt.Sprintf("exit %d, stderr %q (args %v)", r.Exit, clip(string(r.Stderr), 400), r.W.Args))
		}
	}
	r1 := env.Run(c.Spec)
	judgeInPlace(r1, "first")
	pc := c.Clone()
	pc.Flags.Print = true
	pc.RebuildArgs()
	r2 := env.Run(pc.Spec)
	judgePrint(r2, "first")
	// permuted, respelled, reshuffled
	var sp uint64
	fmt.Sscan(c.Extra["spell"], &sp)
	rr := world.NewPRNG(sp)
	perm := rr.Perm(len(absargs))
	pa := make([]string, len(absargs))
	for i, j := range perm {
		pa[i] = absargs[j]
	}
	qc := c.Clone()
	qc.Targets = c15Spell(pa, rr, c)
	qc.Spec.Knobs.Seed = rr.Uint64()
	qc.Spec.Knobs.ShuffleReaddir = true
	qc.RebuildArgs()
	env.Probe("permuted-rerun")
	r3 := env.Run(qc.Spec)
	judgeInPlace(r3, "permuted")
	qc.Flags.Print = true
	qc.RebuildArgs()
	r4 := env.Run(qc.Spec)
	judgePrint(r4, "permuted")
	// the working directory is gone (getwd fails) while the environment still
	// carries a PWD - of another directory with Go files in it: whatever gopatch
	// makes of the relative arguments then, it does not touch a file that the
	// arguments, read against the true working directory, do not name
	if c.Idx%6 == 2 || explicitFaults {
		gw := -1
		for k, o := range r1.Log {
			if o.Name == "getwd" {
				gw = k
				break
			}
		}
		if gw >= 0 {
			gc := c.Clone()
			else1 := SimRoot + "/elsewhere"
			gc.SetNode(world.NodeSpec{Path: else1 + "/e.go", Kind: "file", Data: c15GoFile(900)})
			gc.SetNode(world.NodeSpec{Path: else1 + "/sub/f.go", Kind: "file", Data: c15GoFile(901)})
			gc.Spec.Env = map[string]string{"PWD": else1, "OLDPWD": ProjDir, "HOME": else1}
			gc.RebuildArgs()
			gc.Spec.Faults = []world.Fault{{AtOp: gw, Kind: "fail", Errno: "ENOENT", Sticky: true}}
			rg := env.Run(gc.Spec)
			if len(rg.Fired) > 0 && (rg.Outcome == OutExit || rg.Outcome == OutCrash) {
				env.Probe("working-directory-gone")
				for _, st := range rg.Final {
					if st.Kind != world.KFile || !strings.HasPrefix(st.Path, else1+"/") {
						continue
					}
					if !bytes.Equal(st.Data, c15GoFile(900)) && !bytes.Equal(st.Data, c15GoFile(901)) {
						vc := gc.Clone()
						vs = append(vs, Violation{Oracle: "touched-other", Signature: "C15/touched-other/resolved-against-stale-PWD", Case: vc,
							Detail: fmt.Sprintf("getwd fails (the working directory was removed) and gopatch rewrote %s, a file under $PWD=%s that no argument names (args %v, exit %d, stderr %q)", st.Path, else1, rg.W.Args, rg.Exit, clip(string(rg.Stderr), 300))})
						break
					}
				}
				if bytes.Contains(rg.Stdout, []byte("unit900")) || bytes.Contains(rg.Stdout, []byte("unit901")) {
					vs = append(vs, Violation{Oracle: "touched-other", Signature: "C15/touched-other/printed-from-stale-PWD", Case: gc.Clone(),
						Detail: fmt.Sprintf("getwd fails and gopatch printed a file under $PWD=%s that no argument names (args %v)", else1, rg.W.Args)})
				}
			}
		}
	}
	if c.Extra["alias_arg"] == "1" {
		env.Probe("argument-through-symlinked-directory")
		if r2.Outcome == OutExit && r4.Outcome == OutExit && !c.Flags.Verbose && !bytes.Equal(r2.Stdout, r4.Stdout) {
			add("print-order", "depends-on-argument-order", fmt.Sprintf("--print-only output differs between two spellings/orders of the same arguments (%v vs %v)", r2.W.Args, r4.W.Args))
		}
	}
	if !env.Quiet {
		env.Stats.Sample(map[string]interface{}{"args": c.Spec.Args, "permuted_args": qc.Spec.Args, "nodes": len(c.Spec.Nodes), "expected": expected}, 2)
	}
	return vs
}

func kindOf(s world.FileState, c *Case) string {
	switch {
	case s.Kind == world.KSymlink:
		return "symlink"
	case s.Kind == world.KFile && !strings.HasSuffix(s.Path, ".go"):
		return "non-go"
	case s.Kind == world.KFile:
		rel := strings.TrimPrefix(s.Path, ProjDir+"/")
		parts := strings.Split(rel, "/")
		for _, x := range parts[:len(parts)-1] {
			if c15Excluded(x) {
				return "excluded-dir"
			}
		}
		return "unrequested"
	}
	return "other"
}
