package harness

import (
	"bytes"
	"fmt"
	"sort"
	"strings"

	"verif.local/sim/world"
)

// C16 "restart" family: crash, then run again on what the crash left behind.
//
// Run 1 applies patch A in place and is killed before some operation (or inside
// a write after j bytes), or fails on a persistently full disk. Run 2 is a
// fault-free invocation on exactly the filesystem run 1 left behind (stray
// temporaries included), either with the same patch (the user simply retries)
// or with another patch B whose output is shorter. The reference for run 2 is
// the same invocation on the same filesystem without the leftovers. After run 2
// every Go file must hold either what it held before run 2 or the reference
// result, and exit status 0 must mean the reference result everywhere: what an
// interrupted run leaves behind must never leak into a later run's files.

const c16PatchBK = 77

func c16GenRestart(c *Case, r *world.PRNG) {
	shrink := TemplateByName("shrink")
	pp := GenPatchPlan(r, 2, Templates)
	// patches by file only: run 2 swaps them
	for i, cs := range pp.Files {
		c.AddPatch(fmt.Sprintf("p%d.patch", i), "p", PatchText(cs), nil, nil)
	}
	all := pp.All()
	b := Change{T: shrink, K: c16PatchBK}
	c.Extra["patch_b"] = b.Text()
	n := r.Range(1, 3)
	for j := 0; j < n; j++ {
		dir := ""
		if r.Chance(1, 3) {
			dir = r.Pick([]string{"pkg/", "internal/x/"})
		}
		var cs []Change
		for _, ch := range all {
			if r.Chance(2, 3) {
				cs = append(cs, ch)
			}
		}
		if len(cs) == 0 {
			cs = []Change{all[r.Intn(len(all))]}
		}
		cs = append(cs, b)
		c.AddFile(fmt.Sprintf("%smt%d.go", dir, j), MatchingFile(r, cs, "canonical", ""), "match", nil, "")
	}
	if r.Chance(1, 3) {
		c.AddFile("nm9.go", NonMatchingFile(r, r.Pick(Styles), ""), "nomatch", nil, "")
	}
	AddDecoys(c, r)
	c.Flags = Flags{SkipImport: r.Chance(1, 4), Verbose: r.Chance(1, 5)}
	if r.Chance(1, 2) {
		c.Targets = []string{r.Pick([]string{".", "./..."})}
	} else {
		for _, f := range c.Files {
			c.Targets = append(c.Targets, strings.TrimPrefix(f.Path, ProjDir+"/"))
		}
	}
}

// specFromState turns the filesystem a run left behind into the initial tree of
// the next run.
func specFromState(st []world.FileState, keep func(p string) bool) []world.NodeSpec {
	var nodes []world.NodeSpec
	for _, s := range st {
		if s.Path == "/" || (keep != nil && !keep(s.Path)) {
			continue
		}
		n := world.NodeSpec{Path: s.Path, Mode: uint32(s.Perm)}
		switch s.Kind {
		case world.KDir:
			n.Kind = "dir"
		case world.KFile:
			n.Kind = "file"
			n.Data = append([]byte(nil), s.Data...)
		case world.KSymlink:
			n.Kind = "symlink"
			n.Target = s.Target
			n.Mode = 0
		case world.KFifo:
			n.Kind = "fifo"
		default:
			continue
		}
		nodes = append(nodes, n)
	}
	return nodes
}

func c16EvalRestart(env *Env, c *Case) []Violation {
	var vs []Violation
	seenSig := map[string]bool{}
	base := c.Spec.Clone()
	base.Faults = nil
	init := c.InitialState()
	initial := map[string]bool{}
	for _, s := range init {
		initial[s.Path] = true
	}
	patchB := []byte(c.Extra["patch_b"])
	pbPath := PatDir + "/pb.patch"

	// second(plan, variant) runs the faulty first run and then the second run
	second := func(faults []world.Fault, variant string) {
		spec1 := base.Clone()
		spec1.Faults = faults
		r1 := env.Run(spec1)
		if len(r1.Fired) == 0 || (r1.Outcome != OutKilled && r1.Outcome != OutExit) {
			return
		}
		first := r1.Fired[0]
		leftovers := 0
		for _, s := range r1.Final {
			if !initial[s.Path] {
				leftovers++
			}
		}
		if leftovers > 0 {
			env.Probe("restart-with-leftover-temporary")
		}
		mk := func(clean bool) world.Spec {
			sp := base.Clone()
			sp.Faults = nil
			sp.Nodes = specFromState(r1.Final, func(p string) bool { return !clean || initial[p] })
			sp.Knobs.Seed = world.Mix(base.Knobs.Seed, 2)
			if variant == "other-patch" {
				sp.Nodes = append(sp.Nodes, world.NodeSpec{Path: pbPath, Kind: "file", Data: patchB})
				args := append([]string{}, c.Flags.Args()...)
				args = append(args, "-p", pbPath)
				args = append(args, c.Targets...)
				sp.Args = args
			}
			return sp
		}
		r2 := env.Run(mk(false))
		ref := RunCLI(env.Prog, mk(true))
		if r2.Outcome != OutExit || ref.Outcome != OutExit {
			env.Probe("restart-run-did-not-exit")
			return
		}
		env.Probe("restart-second-run")
		env.Seen(fmt.Sprintf("restart|%s|%s|%s|%d", variant, first.Fault, opClass(first, wroteHandles(r1.Log)), leftovers))
		add := func(oracle, sig, detail string) {
			s := "C16/" + oracle + "/" + sig
			if seenSig[s] {
				return
			}
			seenSig[s] = true
			cc := c.Clone()
			cc.Spec.Faults = faults
			cc.Extra["variant"] = variant
			vs = append(vs, Violation{Oracle: oracle, Signature: s, Case: cc, Detail: detail + fmt.Sprintf(" [run 1: %s at op %d (%s %s, %d bytes let through); run 2: %s, args %v; %d leftover file(s) of run 1]", first.Fault, first.Seq, first.Name, first.Path, first.N, variant, r2.W.Args, leftovers)})
		}
		before := goFiles(r1.Final)
		want := goFiles(ref.Final)
		got := goFiles(r2.Final)
		var paths []string
		for p := range before {
			paths = append(paths, p)
		}
		sort.Strings(paths)
		for _, p := range paths {
			g, ok := got[p]
			if !ok {
				add("restart", "file-missing", fmt.Sprintf("%s no longer exists after the second run", p))
				continue
			}
			isOld := bytes.Equal(g.Data, before[p].Data)
			isNew := bytes.Equal(g.Data, want[p].Data)
			if !isOld && !isNew {
				add("restart", "leftover-leaks-into-file", fmt.Sprintf("after the second run %s holds %d bytes that are neither what it held before that run (%d bytes) nor the result of the same run without the first run's leftovers (%d bytes): %q", p, len(g.Data), len(before[p].Data), len(want[p].Data), clip(string(g.Data), 160)))
			} else if !isNew && r2.Exit == 0 {
				add("restart", "exit-zero-but-unpatched", fmt.Sprintf("the second run exits 0 but left %s unpatched (the same run without the first run's leftovers patches it)", p))
			}
		}
		for p, g := range got {
			if _, ok := before[p]; !ok {
				okc := false
				for _, w := range want {
					if bytes.Equal(w.Data, g.Data) {
						okc = true
					}
				}
				if !okc {
					add("restart", "stray-go-file", fmt.Sprintf("the second run created Go file %s", p))
				}
			}
		}
	}
	if len(c.Spec.Faults) > 0 {
		second(c.Spec.Faults, c.Extra["variant"])
		return vs
	}
	pilot := env.Run(base)
	if pilot.Outcome != OutExit || pilot.Exit != 0 {
		env.Probe("pilot-did-not-exit")
		return nil
	}
	var seedv uint64
	fmt.Sscan(c.Extra["rng"], &seedv)
	r := world.NewPRNG(seedv)
	firstMut := len(pilot.Log)
	for k, o := range pilot.Log {
		if o.Mut {
			firstMut = k
			break
		}
	}
	for k, o := range pilot.Log {
		if k < firstMut || o.Name == "exit" || o.Name == "stderr" || o.Name == "stdout" {
			continue // before the first mutation a kill leaves the initial state
		}
		if env.Expired() {
			break
		}
		for _, variant := range []string{"other-patch", "same-patch"} {
			second([]world.Fault{{AtOp: k, Kind: "kill", Bytes: -1}}, variant)
			if o.Name == "write" && o.N > 1 {
				second([]world.Fault{{AtOp: k, Kind: "kill", Bytes: 1 + r.Intn(o.N-1)}}, variant)
				second([]world.Fault{{AtOp: k, Kind: "fail", Bytes: r.Intn(o.N), Errno: "ENOSPC", Sticky: true}}, variant)
			}
		}
	}
	if !env.Quiet {
		env.Stats.Sample(map[string]interface{}{"family": "restart", "args": c.Spec.Args, "pilot_ops": len(pilot.Log), "first_mutating_op": firstMut}, 2)
	}
	return vs
}
