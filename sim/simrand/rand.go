// Package rand (import path verif.local/sim/simrand) is the simulator's
// stand-in for math/rand. Explicitly seeded generators are the real ones. The
// package-level functions, which the Go runtime seeds randomly at process
// start, draw from a generator that the harness seeds per run and per process
// (VERIF_PROC_RAND), so that a changed gopatch that consults them is
// repeatable and its dependence on them can be explored.
package rand

import (
	"math/rand"
	"os"
	"strconv"
	"sync"
)

type (
	Rand     = rand.Rand
	Source   = rand.Source
	Source64 = rand.Source64
	Zipf     = rand.Zipf
)

func New(src Source) *Rand                                     { return rand.New(src) }
func NewSource(seed int64) Source                              { return rand.NewSource(seed) }
func NewZipf(r *Rand, s float64, v float64, imax uint64) *Zipf { return rand.NewZipf(r, s, v, imax) }

var procSeed = func() int64 {
	if v, err := strconv.ParseInt(os.Getenv("VERIF_PROC_RAND"), 10, 64); err == nil {
		return v
	}
	return 1
}()

var (
	mu    sync.Mutex
	g     = rand.New(rand.NewSource(procSeed))
	draws int64
)

// SetSeed starts a run. Harness only.
func SetSeed(s int64) {
	mu.Lock()
	g = rand.New(rand.NewSource(procSeed*1_000_003 + s))
	mu.Unlock()
}

// Draws reports how often the package-level generator has been consulted.
func Draws() int64 { mu.Lock(); defer mu.Unlock(); return draws }

func with[T any](f func(*rand.Rand) T) T {
	mu.Lock()
	defer mu.Unlock()
	draws++
	return f(g)
}

func Seed(seed int64)      { mu.Lock(); g = rand.New(rand.NewSource(seed)); mu.Unlock() }
func Int63() int64         { return with(func(r *rand.Rand) int64 { return r.Int63() }) }
func Uint32() uint32       { return with(func(r *rand.Rand) uint32 { return r.Uint32() }) }
func Uint64() uint64       { return with(func(r *rand.Rand) uint64 { return r.Uint64() }) }
func Int31() int32         { return with(func(r *rand.Rand) int32 { return r.Int31() }) }
func Int() int             { return with(func(r *rand.Rand) int { return r.Int() }) }
func Int63n(n int64) int64 { return with(func(r *rand.Rand) int64 { return r.Int63n(n) }) }
func Int31n(n int32) int32 { return with(func(r *rand.Rand) int32 { return r.Int31n(n) }) }
func Intn(n int) int       { return with(func(r *rand.Rand) int { return r.Intn(n) }) }
func Float64() float64     { return with(func(r *rand.Rand) float64 { return r.Float64() }) }
func Float32() float32     { return with(func(r *rand.Rand) float32 { return r.Float32() }) }
func Perm(n int) []int     { return with(func(r *rand.Rand) []int { return r.Perm(n) }) }
func NormFloat64() float64 { return with(func(r *rand.Rand) float64 { return r.NormFloat64() }) }
func ExpFloat64() float64  { return with(func(r *rand.Rand) float64 { return r.ExpFloat64() }) }
func Shuffle(n int, swap func(i, j int)) {
	with(func(r *rand.Rand) int { r.Shuffle(n, swap); return 0 })
}
func Read(p []byte) (n int, err error) {
	mu.Lock()
	defer mu.Unlock()
	draws++
	return g.Read(p)
}
