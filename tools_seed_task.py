#!/usr/bin/env python3
"""Prepare a seeding round: for every claimed property create a scratch worktree of /repo
under /tmp/mut/<P>-<wave> and write the task file /tmp/mut/<P>-<wave>-out/TASK.md that a fresh
sub-agent gets (property text only, plus one-line summaries of the changes of earlier rounds).
usage: tools_seed_task.py <wave> [props...]"""
import json, os, subprocess, sys, glob

wave = sys.argv[1]
props = sys.argv[2:] or ["C06", "C07", "C08", "C12", "C14", "C15", "C16", "C18"]
P = {}
for l in open("/verif/properties.jsonl"):
    d = json.loads(l)
    P[d["id"]] = d
template = open("/verif/tools_seed_task.tmpl").read()
for p in props:
    wt = f"/tmp/mut/{p}-{wave}"
    out = f"/tmp/mut/{p}-{wave}-out"
    os.makedirs(out + "/tmp", exist_ok=True)
    if not os.path.isdir(wt):
        subprocess.check_call(["git", "-C", "/repo", "worktree", "add", "--detach", "-q", wt, "HEAD"])
    used = []
    for m in sorted(glob.glob(f"/verif/seeded/{p}-w*/meta.json")):
        try:
            used.append("* " + json.load(open(m))["breaks"].replace("\n", " ")[:150])
        except Exception:
            pass
    t = (template.replace("{WT}", wt).replace("{OUT}", out).replace("{TITLE}", P[p]["title"])
         .replace("{STATEMENT}", P[p]["statement"]).replace("{QUANT}", P[p]["quantifier"]["text"])
         .replace("{USED}", "\n".join(used)))
    open(out + "/TASK.md", "w").write(t)
    print(out + "/TASK.md", len(used), "earlier ideas")
