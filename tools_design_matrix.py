#!/usr/bin/env python3
"""Regenerates the seeded-change matrix in DESIGN.md (between the MATRIX markers) from seeded/*/meta.json
and the result files written by tools_matrix.sh (seeded/results_*.txt: '<id> <prop> exit=<rc> violations=<n> ...')."""
import json, glob, os, re, sys
res = {}
for f in sorted(glob.glob('/verif/seeded/results_*.txt')):
    for l in open(f):
        m = re.match(r'(C\d+-w\d+-m\d+) (C\d+) exit=(\d+) violations=(\d+)\s*(.*)', l.strip())
        if m:
            res.setdefault(m.group(1), {})[m.group(2)] = (int(m.group(3)), int(m.group(4)), m.group(5))
rows = []
for d in sorted(glob.glob('/verif/seeded/C*-w*-m*/')):
    sid = os.path.basename(d.rstrip('/'))
    meta = json.load(open(d + 'meta.json'))
    r = res.get(sid, {})
    det = sorted(p for p, (rc, nv, _) in r.items() if rc == 1 and nv > 0)
    ran = sorted(r.keys())
    meta['detected_by'] = det if ran else meta.get('detected_by', [])
    meta['checks_run_on_final_machinery'] = ran
    json.dump(meta, open(d + 'meta.json', 'w'), indent=1)
    what = (meta.get('breaks') or '').replace('\n', ' ').replace('|', '/')
    what = what[:200] + ('…' if len(what) > 200 else '')
    own = sid.split('-')[0]
    sig = r.get(own, (0, 0, ''))[2].replace('verifsim: ', '').replace('|', '/')[:90]
    rows.append(f"| `{sid}` | {what} | {', '.join(det) if det else ('**none**' if ran else 'not run')} | {sig} |")
table = "| Seeded change | What it does | Quick checks that report it | First signature of its own property's check |\n|---|---|---|---|\n" + "\n".join(rows)
p = '/verif/DESIGN.md'
s = open(p).read()
a, b = '<!-- MATRIX:BEGIN -->', '<!-- MATRIX:END -->'
if a in s and b in s:
    s = s[:s.index(a) + len(a)] + "\n" + table + "\n" + s[s.index(b):]
    open(p, 'w').write(s)
    print("DESIGN.md matrix updated:", len(rows), "rows")
else:
    print(table)
