package harness

import (
	"bytes"
	"fmt"
	"path"
	"strings"

	"verif.local/sim/world"
)

// C12 — Dry-run modes never write, and all output modes agree.
type c12 struct{}

func init() { Register(c12{}) }

func (c12) ID() string { return "C12" }

func (c12) NumCases(tier string) int {
	if tier == "thorough" {
		return 400_000
	}
	return 4_400
}

func (c12) Describe() CheckInfo {
	return CheckInfo{
		Level: "exploration",
		Rule: "two seeded families. 'agree' (fault-free): the same world is run in-place, with --print-only, with --diff, with -v, and through patch.Parse/Apply; bytes written = bytes printed = strict application of the printed unified diff to the original = API result, multi-file print output = concatenation in path order, -v only adds its log lines, description markers appear on stderr only and only as <path>:<marker> for a file a described change matches. " +
			"'dry' (faulty): with --diff and/or --print-only every operation of a fault-free pilot is failed once and the process killed before it (stdout writes also at sampled byte offsets); the op log must contain no mutating operation and the filesystem digest (shape, inode numbers, bytes, modes, mtimes) must be unchanged. " +
			"distinct = distinct (family, flag set, template multiset, layout styles, fault class) tuples",
		Assumptions: []string{
			"the API comparison is made only for runs with exactly one patch file and without --skip-import-processing (the API has neither notion)",
			"the --diff output is applied with the semantics of patch(1): context and removed lines must match the original byte for byte (carriage returns included) and a missing final newline is expressed by the '\\ No newline at end of file' marker; the result must equal the in-place bytes exactly",
			"only the descriptions of the last matching change are printed by gopatch; the oracle is one-directional (no foreign or misplaced description), as the property states",
		},
		RealCode:       []string{"gopatch main()/mainCmd.Run, preview/printComments, patch.Parse/File.Apply, pkg/diff, x/tools/imports, internal/*"},
		Stubs:          []string{"package os (simulated filesystem, streams, exit)", "path/filepath walk", "io/ioutil"},
		RequiredProbes: []string{"agree-inplace-vs-print", "agree-diff-applied", "agree-api", "agree-verbose", "agree-refused-file", "description-on-stderr", "multi-file-print", "dry-fault-fired", "dry-kill", "dry-stdout-fail", "noncanonical-matched-file", "large-file", "agree-respelled-duplicate-arg", "agree-api-result-held", "agree-hard-linked-targets", "agree-name-near-name-max", "agree-diff-applied-crlf", "agree-diff-applied-no-final-newline", "agree-diff-shape-table", "agree-described-change-fails-to-replace", "agree-write-protected-target", "agree-good-and-failing-change-in-one-patch", "agree-target-in-sibling-directory", "agree-change-inside-elided-region-of-another"},
	}
}

// hand-written (patch, file) pairs around the edges of what a unified diff has to
// express: insertions that repeat their neighbours, changes in the first and
// last line, deletions down to almost nothing, distant and adjacent hunks
var c12Shapes = []struct{ name, patch, src string }{
	// the '-' side matches only where the replacement cannot stand (a declared
	// name, a field name, a label): whatever gopatch makes of that, every mode
	// and the library make the same of it
	{"matches-only-a-declared-name", "@@\n@@\n-vfFoo\n+vfBar.Baz\n", "package a\n\nfunc vfFoo()   {}\n"},
	{"matches-only-a-var-name", "@@\n@@\n-vfFoo\n+vfBar.Baz\n", "package a\n\nvar  vfFoo  =  1\n\nfunc f() {}\n"},
	{"matches-only-a-field-name", "@@\n@@\n-vfFoo\n+vfBar(1)\n", "package a\n\ntype T struct {\n\tvfFoo   int\n}\n"},
	{"matches-a-name-and-a-use", "@@\n@@\n-vfFoo\n+vfBar.Baz\n", "package a\n\nvar  vfFoo  =  1\n\nfunc f() int { return vfFoo }\n"},
	{"insert-block-equal-to-previous-at-end", "@@\n@@\n-vfTail()\n+if ok {\n+\tlog()\n+}\n", "package a\n\nfunc f() {\n\tif ok {\n\t\tlog()\n\t}\n\tvfTail()\n}\n"},
	{"duplicate-last-statement", "@@\nvar x expression\n@@\n-vfDup(x)\n+keep(x)\n+keep(x)\n", "package a\n\nfunc f() {\n\tsetup()\n\tkeep(1)\n\tvfDup(1)\n}\n"},
	{"duplicate-two-line-tail", "@@\n@@\n-vfTail()\n+a()\n+b()\n", "package a\n\nfunc f() {\n\tx()\n\ta()\n\tb()\n\tvfTail()\n}\n"},
	{"insert-equal-to-next-at-start", "@@\n@@\n-vfHead()\n+a()\n+b()\n", "package a\n\nfunc f() {\n\tvfHead()\n\ta()\n\tb()\n\tx()\n}\n"},
	{"pure-insertion-duplicating-last-statement", "@@\n@@\n vfKeep(1)\n+vfKeep(1)\n", "package a\n\nfunc f() {\n\tsetup()\n\tvfKeep(1)\n}\n"},
	{"pure-insertion-of-block-after-equal-block", "@@\n@@\n if vfCond {\n   ...\n }\n+if vfCond {\n+\tlog()\n+}\n", "package a\n\nfunc f() {\n\tsetup()\n\tif vfCond {\n\t\tlog()\n\t}\n}\n"},
	{"pure-insertion-two-line-repeat", "@@\n@@\n vfA()\n vfB()\n+vfA()\n+vfB()\n", "package a\n\nfunc f() {\n\tvfA()\n\tvfB()\n}\n"},
	{"pure-insertion-before-equal-lines", "@@\n@@\n+vfA()\n vfA()\n", "package a\n\nfunc f() {\n\tvfA()\n\ttail()\n}\n"},
	{"delete-first-statement", "@@\n@@\n-vfHead()\n", "package a\n\nfunc f() {\n\tvfHead()\n\ta()\n}\n"},
	{"delete-only-statement", "@@\n@@\n-vfOnly()\n", "package a\n\nfunc f() {\n\tvfOnly()\n}\n"},
	{"change-last-line-of-file", "@@\n@@\n-var vfLast = 1\n+var vfLast = 2\n", "package a\n\nvar first = 0\n\nvar vfLast = 1\n"},
	{"change-first-declaration", "@@\n@@\n-var vfFirst = 1\n+var vfFirst = 2\n", "package a\n\nvar vfFirst = 1\n\nvar last = 0\n"},
	{"two-distant-hunks", "@@\n@@\n-vfFar()\n+near()\n", "package a\n\nfunc f() {\n\tvfFar()\n}\n\nfunc g1() {}\nfunc g2() {}\nfunc g3() {}\nfunc g4() {}\nfunc g5() {}\nfunc g6() {}\nfunc g7() {}\nfunc g8() {}\n\nfunc h() {\n\tvfFar()\n}\n"},
	{"adjacent-changes", "@@\n@@\n-vfAdj()\n+adj(1)\n", "package a\n\nfunc f() {\n\tvfAdj()\n\tvfAdj()\n\tvfAdj()\n}\n"},
	{"grow-one-line-into-many", "@@\n@@\n-vfGrow()\n+a()\n+b()\n+c()\n+d()\n+e()\n+f()\n+g()\n+h()\n", "package a\n\nfunc f() {\n\tvfGrow()\n}\n"},
	{"shrink-many-lines-into-one", "@@\n@@\n-vfShrink(...)\n+one()\n", "package a\n\nfunc f() {\n\tvfShrink(1,\n\t\t2,\n\t\t3,\n\t\t4,\n\t\t5,\n\t\t6)\n}\n"},
	{"everything-changes", "@@\n@@\n-vfAll\n+allNew\n", "package vfAll\n\nvar vfAll = vfAll + vfAll\n"},
	{"repeated-identical-lines-around", "@@\n@@\n-vfMid()\n+same()\n", "package a\n\nfunc f() {\n\tsame()\n\tsame()\n\tvfMid()\n\tsame()\n\tsame()\n}\n"},
	{"blank-lines-around", "@@\n@@\n-vfBlank()\n+filled()\n", "package a\n\nfunc f() {\n\n\n\tvfBlank()\n\n\n}\n"},
}

func (c12) Gen(env *Env, seed uint64, tier string, i int) *Case {
	r := world.NewPRNG(world.Mix(seed, 12, uint64(i)))
	sub := "agree"
	if i%5 == 4 {
		sub = "dry"
	}
	c := NewCLICase("C12", sub, i, seed)
	if i%11 == 7 && sub == "agree" {
		sh := c12Shapes[(i/11)%len(c12Shapes)]
		c.AddPatch("p0.patch", r.Pick([]string{"p", "stdin", "P"}), []byte(sh.patch), nil, nil)
		src := sh.src
		if r.Chance(1, 4) {
			src = strings.ReplaceAll(src, "\n", "\r\n")
		}
		c.AddFile("shape.go", []byte(src), "match", nil, sh.name)
		if r.Chance(1, 3) {
			c.AddFile("zz_other.go", NonMatchingFile(r, "canonical", ""), "nomatch", nil, "canonical")
		}
		c.Flags = Flags{SkipImport: r.Chance(1, 3)}
		c.Targets = []string{"."}
		if r.Chance(1, 2) {
			c.Targets = nil
			for _, f := range c.Files {
				c.Targets = append(c.Targets, strings.TrimPrefix(f.Path, ProjDir+"/"))
			}
		}
		c.Extra["shape"] = sh.name
		c.Extra["rng"] = fmt.Sprint(r.Uint64())
		c.RebuildArgs()
		return c
	}
	pp := GenPatchPlan(r, 2, Templates)
	nested := sub == "agree" && r.Chance(1, 9)
	if nested {
		// ONE patch file, two changes: the first elides arguments with "...", the
		// second rewrites a call that sits (over several lines, with a comment)
		// inside what the first one elided. The library runs both as well.
		outer := TemplateByName(r.Pick([]string{"dots-multiline", "dots-args"}))
		inner := TemplateByName(r.Pick([]string{"call-rename", "swap-args"}))
		pp = PatchPlan{Files: [][]Change{{{T: outer, K: 1, Marker: "VFMARK-1-" + outer.Name}, {T: inner, K: 2, Marker: "VFMARK-2-" + inner.Name}}}}
		if r.Chance(1, 2) {
			pp.Files[0][0], pp.Files[0][1] = pp.Files[0][1], pp.Files[0][0]
		}
		c.Extra["nested_changes"] = "1"
	}
	pp.Install(c, r)
	all := pp.All()
	n := r.Range(1, 5)
	for j := 0; j < n; j++ {
		dir := ""
		if r.Chance(1, 3) {
			dir = r.Pick([]string{"pkg/", "internal/x/", "cmd/tool/"})
		}
		if r.Chance(3, 4) {
			var cs []Change
			for _, ch := range all {
				if r.Chance(1, 2) {
					cs = append(cs, ch)
				}
			}
			if len(cs) == 0 {
				cs = []Change{all[r.Intn(len(all))]}
			}
			var ms []string
			for _, ch := range cs {
				if ch.Marker != "" {
					ms = append(ms, ch.Marker)
				}
			}
			style := "canonical"
			if r.Chance(1, 3) {
				style = r.Pick(Styles)
			}
			data := MatchingFile(r, cs, style, r.Pick(plainHeaders))
			if r.Chance(1, 8) && style == "canonical" {
				// a large file: output well beyond any I/O buffer size
				var filler strings.Builder
				for k := 0; k < 40+r.Intn(60); k++ {
					fmt.Fprintf(&filler, "\nfunc filler%d(a, b int) int {\n\tif a > b {\n\t\treturn a - b // %d\n\t}\n\treturn b - a\n}\n", k, k)
				}
				data = append(data, []byte(filler.String())...)
				env.Probe("large-file")
			}
			name := fmt.Sprintf("%smt%d.go", dir, j)
			if r.Chance(1, 12) {
				// a base name close to NAME_MAX (255 bytes): still a perfectly legal file
				name = fmt.Sprintf("%s%s%d.go", dir, strings.Repeat("L", 245), j)
				c.Extra["long_name"] = "1"
			}
			fp := c.AddFile(name, data, "match", ms, style)
			if r.Chance(1, 8) {
				// a write-protected target: replacing it needs the directory, not the file
				c.SetNode(world.NodeSpec{Path: fp, Kind: "file", Data: data, Mode: []uint32{0o444, 0o400, 0o555}[r.Intn(3)]})
				c.Extra["readonly_target"] = "1"
			}
		} else {
			style := r.Pick(Styles)
			c.AddFile(fmt.Sprintf("%snm%d.go", dir, j), NonMatchingFile(r, style, ""), "nomatch", nil, style)
		}
	}
	AddDecoys(c, r)
	if r.Chance(1, 5) {
		AddHardlinkTarget(c, r)
	}
	c.Flags = Flags{SkipImport: r.Chance(1, 3), SkipGen: r.Chance(1, 4)}
	if nested {
		c.Flags = Flags{}
	}
	if sub == "agree" && !nested && r.Chance(1, 5) {
		// a file whose rewrite is refused: every mode must refuse it alike
		m := Misfits[r.Intn(len(Misfits))]
		for i := range c.Patches {
			if c.Patches[i].Via == "stdin" {
				c.Patches[i].Via = "p"
				c.Patches[i].Path = PatDir + "/p0.patch"
				c.SetNode(world.NodeSpec{Path: c.Patches[i].Path, Kind: "file", Data: c.Patches[i].Data})
			}
		}
		c.AddPatch("misfit.patch", c.Patches[0].Via, []byte(m.Patch(47)), nil, nil)
		c.AddFile(r.Pick([]string{"a_mis.go", "mm_mis.go", "zz_mis.go"}), GenValidGoFile(r, GoFileOpts{Funcs: 1, Stmts: []string{m.Stmt(47)}}), "misfit", nil, m.Name)
	}
	if sub == "agree" && !nested && r.Chance(1, 6) {
		// a DESCRIBED change that matches a file but whose replacement cannot be
		// built for it: the change did not apply, so its description is not due
		for i := range c.Patches {
			if c.Patches[i].Via == "stdin" {
				c.Patches[i].Via = "p"
				c.Patches[i].Path = PatDir + "/p0.patch"
				c.SetNode(world.NodeSpec{Path: c.Patches[i].Path, Kind: "file", Data: c.Patches[i].Data})
			}
		}
		c.AddPatch("ill.patch", c.Patches[0].Via, []byte("# VFMARK-99-ill\n@@\nvar f expression\n@@\n-f(vfIll)\n+f.f(vfIll)\n"), []string{"VFMARK-99-ill"}, nil)
		c.AddFile(r.Pick([]string{"a_rewr.go", "mm_rewr.go", "zz_rewr.go"}), []byte("package sample\n\nfunc rewr() {\n\tc.conn.Close(vfIll)\n}\n"), "rewrite-error", nil, "")
		c.Extra["described_rewrite_error"] = "1"
	}
	plainSoFar := true
	for _, f := range c.Files {
		if f.Role == "misfit" || f.Role == "rewrite-error" {
			plainSoFar = false
		}
	}
	if sub == "agree" && !nested && plainSoFar && r.Chance(1, 7) {
		// ONE patch file whose changes both match one file: an ordinary rename and a
		// change whose replacement cannot be built, in either order. Whatever the
		// command does with that file, the library must say the same.
		good := "# VFMARK-98-good\n@@\n@@\n-vfGoodOld\n+vfGoodNew\n"
		ill := "@@\nvar f expression\n@@\n-f(vfIll)\n+f.f(vfIll)\n"
		text := good + "\n" + ill
		if r.Chance(1, 2) {
			text = ill + "\n" + good
		}
		for _, p := range append([]PatchMeta(nil), c.Patches...) {
			if p.Path != "stdin" {
				c.DropFile(p.Path)
			}
		}
		c.Patches = nil
		c.AddPatch("two.patch", "p", []byte(text), []string{"VFMARK-98-good"}, nil)
		for k := range c.Files {
			if c.Files[k].Role == "match" {
				c.Files[k].Role = "nomatch"
				c.Files[k].Markers = nil
			}
		}
		c.AddFile(r.Pick([]string{"a_both.go", "mm_both.go", "zz_both.go"}), []byte("package sample\n\nfunc both() {\n\tvfGoodOld()\n\tc.conn.Close(vfIll)\n\tvfGoodOld(3)\n}\n"), "rewrite-error", nil, "")
		c.AddFile("m_good_only.go", []byte("package sample\n\nfunc g() {\n\tvfGoodOld()\n}\n"), "match", []string{"VFMARK-98-good"}, "canonical")
		c.Flags.SkipImport, c.Flags.SkipGen = false, false
		c.Extra["good_and_failing_change"] = "1"
	}
	if sub == "dry" {
		switch r.Intn(3) {
		case 0:
			c.Flags.Diff = true
		case 1:
			c.Flags.Print = true
		default:
			c.Flags.Diff, c.Flags.Print = true, true
		}
		c.Flags.Verbose = r.Chance(1, 3)
	}
	if r.Chance(1, 3) {
		c.Targets = []string{r.Pick([]string{".", "./..."})}
	} else {
		for _, f := range c.Files {
			rel := strings.TrimPrefix(f.Path, ProjDir+"/")
			if r.Chance(1, 5) {
				rel = f.Path
			}
			c.Targets = append(c.Targets, rel)
		}
	}
	if r.Chance(1, 8) && len(all) > 0 {
		// a target OUTSIDE the working directory, in a sibling directory whose name
		// starts with the working directory's name, reached by a relative path
		ch := all[r.Intn(len(all))]
		var ms []string
		if ch.Marker != "" {
			ms = []string{ch.Marker}
		}
		sib := SimRoot + "/" + path.Base(ProjDir) + r.Pick([]string{"v2", "-old", "_test", ".bak"})
		sp := sib + "/" + r.Pick([]string{"client.go", "pkg/client.go"})
		c.SetNode(world.NodeSpec{Path: sp, Kind: "file", Data: MatchingFile(r, []Change{ch}, "canonical", "")})
		c.Files = append(c.Files, FileMeta{Path: sp, Role: "match", Markers: ms, Note: "canonical"})
		var tg []string
		for _, f := range c.Files {
			if f.Path == sp {
				tg = append(tg, "../"+strings.TrimPrefix(sp, SimRoot+"/"))
			} else {
				tg = append(tg, strings.TrimPrefix(f.Path, ProjDir+"/"))
			}
		}
		if r.Chance(1, 3) {
			tg = []string{".", "../" + path.Base(sib)}
		}
		c.Targets = tg
		c.Extra["sibling_dir_target"] = "1"
	}
	if r.Chance(1, 4) {
		c.Spec.Knobs.StdinChunk = -8
		c.Spec.Knobs.FileChunk = -128
	}
	if sub == "agree" && r.Chance(1, 4) && len(c.Files) > 0 {
		// the same file (or directory) named again in another spelling: every mode
		// must still treat each file once
		f := c.Files[r.Intn(len(c.Files))]
		rel := strings.TrimPrefix(f.Path, ProjDir+"/")
		if rel == f.Path {
			// a target in a sibling directory
			rel = "../" + strings.TrimPrefix(f.Path, SimRoot+"/")
		}
		c.Targets = append(c.Targets, r.Pick([]string{f.Path, rel, "./" + rel, ProjDir, ".", ProjDir + "/./" + rel}))
		c.Extra["respelled_duplicate"] = "1"
	}
	c.Extra["rng"] = fmt.Sprint(r.Uint64())
	c.RebuildArgs()
	return c
}

func (c12) Eval(env *Env, c *Case) []Violation {
	if c.Sub == "dry" {
		return c12Dry(env, c)
	}
	return c12Agree(env, c)
}

func withFlags(c *Case, f Flags) world.Spec {
	d := c.Clone()
	d.Flags = f
	d.RebuildArgs()
	d.Spec.Faults = nil
	return d.Spec
}

func c12Agree(env *Env, c *Case) (vs []Violation) {
	if c.Extra["respelled_duplicate"] == "1" {
		env.Probe("agree-respelled-duplicate-arg")
	}
	if c.Extra["hardlink_target"] == "1" {
		env.Probe("agree-hard-linked-targets")
	}
	if c.Extra["long_name"] == "1" {
		env.Probe("agree-name-near-name-max")
	}
	if c.Extra["shape"] != "" {
		env.Probe("agree-diff-shape-table")
	}
	add := func(oracle, sig, detail string) {
		vs = append(vs, Violation{Oracle: oracle, Signature: "C12/" + oracle + "/" + sig, Detail: detail})
	}
	base := Flags{SkipImport: c.Flags.SkipImport, SkipGen: c.Flags.SkipGen}
	init := c.InitialState()
	orig := goFilesAll(init)
	rw := env.Run(withFlags(c, base))
	fp := base
	fp.Print = true
	rp := env.Run(withFlags(c, fp))
	fd := base
	fd.Diff = true
	rd := env.Run(withFlags(c, fd))
	fv := fp
	fv.Verbose = true
	rv := env.Run(withFlags(c, fv))
	// the default mode with -v, in a world of its own (it writes): its log goes to
	// stdout too, its descriptions must not
	fwv := base
	fwv.Verbose = true
	rwv := env.Run(withFlags(c, fwv))
	for _, r := range []*RunResult{rw, rp, rd, rv} {
		if r.Outcome != OutExit {
			env.Probe("run-did-not-exit")
			return nil
		}
	}
	final := goFilesAll(rw.Final)
	sorted := c.SortedFiles()
	// files whose rewrite in-place mode refused (reported and left untouched):
	// every other mode must refuse them alike, i.e. emit nothing for them
	failed := map[string]bool{}
	for _, f := range sorted {
		if rw.Exit != 0 && namesPath(c, string(rw.Stderr), f.Path) && bytes.Equal(final[f.Path].Data, orig[f.Path].Data) {
			failed[f.Path] = true
			env.Probe("agree-refused-file")
		}
	}
	anyNamed := false
	for _, f := range sorted {
		if namesPath(c, string(rw.Stderr), f.Path) {
			// reported, and rewritten all the same: the other modes and the
			// library are held to what in-place mode did with it
			anyNamed = true
		}
	}
	if rw.Exit != 0 && len(failed) == 0 && !anyNamed {
		// the run failed as a whole (patch did not load, ...): nothing to compare
		env.Probe("inplace-run-failed")
		return nil
	}
	env.Seen(c12Key(c, "agree"))
	if c.Extra["good_and_failing_change"] == "1" {
		env.Probe("agree-good-and-failing-change-in-one-patch")
	}
	if c.Extra["sibling_dir_target"] == "1" {
		env.Probe("agree-target-in-sibling-directory")
	}
	if c.Extra["nested_changes"] == "1" {
		env.Probe("agree-change-inside-elided-region-of-another")
	}
	tag := "skipimp=" + fmt.Sprint(c.Flags.SkipImport)

	// print-only == concatenation, in path order, of what in-place mode wrote
	var want bytes.Buffer
	restP := rp.Stdout
	for _, f := range sorted {
		if !failed[f.Path] {
			want.Write(final[f.Path].Data)
		} else if o := orig[f.Path].Data; len(o) > 0 && bytes.HasPrefix(restP[min(want.Len(), len(restP)):], o) {
			// a refused file echoed unchanged: that is what in-place mode leaves on disk
			want.Write(o)
		}
		if f.Role == "match" && f.Note != "canonical" {
			env.Probe("noncanonical-matched-file")
		}
	}
	if c.Extra["described_rewrite_error"] == "1" {
		env.Probe("agree-described-change-fails-to-replace")
	}
	env.Probe("agree-inplace-vs-print")
	if len(sorted) > 1 {
		env.Probe("multi-file-print")
	}
	if !bytes.Equal(rp.Stdout, want.Bytes()) {
		add("print-vs-inplace", tag, fmt.Sprintf("--print-only stdout differs from the bytes written in place (concatenated in path order)\nprint-only: %q\nin-place:   %q", clip(string(rp.Stdout), 400), clip(want.String(), 400)))
	}
	if (rp.Exit != 0) != (rw.Exit != 0) {
		add("print-vs-inplace", "exit/"+tag, fmt.Sprintf("--print-only exit status %d but in-place mode exit status %d", rp.Exit, rw.Exit))
	}
	// --diff applied to the original == what in-place mode wrote
	dfs, derr := ParseUnified(string(rd.Stdout))
	if derr != nil {
		add("diff-vs-inplace", "unparseable-diff/"+tag, fmt.Sprintf("--diff output is not a well-formed unified diff: %v\n%q", derr, clip(string(rd.Stdout), 400)))
	} else {
		bySec := map[string]DiffFile{}
		for _, df := range dfs {
			p := absTarget(df.Old)
			if _, dup := bySec[p]; dup {
				add("diff-vs-inplace", "duplicate-section/"+tag, fmt.Sprintf("--diff printed two sections for %s", p))
			}
			bySec[p] = df
			if _, ok := orig[p]; !ok {
				add("diff-vs-inplace", "unknown-file/"+tag, fmt.Sprintf("--diff printed a section for %q which is not a target file", df.Old))
			}
		}
		for _, f := range sorted {
			o := string(orig[f.Path].Data)
			w := string(final[f.Path].Data)
			df, has := bySec[f.Path]
			if has && failed[f.Path] {
				add("diff-vs-inplace", "section-for-refused-file/"+tag, fmt.Sprintf("in-place mode refuses to rewrite %s (%q) but --diff printed a diff for it", f.Path, clip(string(rw.Stderr), 200)))
				continue
			}
			if !has {
				if o != w {
					add("diff-vs-inplace", "missing-section/"+tag, fmt.Sprintf("in-place mode changes %s but --diff printed nothing for it", f.Path))
				}
				continue
			}
			env.Probe("agree-diff-applied")
			if strings.Contains(o, "\r") {
				env.Probe("agree-diff-applied-crlf")
			}
			if !strings.HasSuffix(o, "\n") {
				env.Probe("agree-diff-applied-no-final-newline")
			}
			got, err := ApplyUnified(o, df)
			if !strings.HasSuffix(o, "\n") && (err != nil || got != w) {
				// Is the missing newline at the end of the original the only thing the
				// diff fails to express? Then it applies to the original plus a newline
				// and yields the in-place bytes: one specific, separately keyed defect.
				if g2, e2 := ApplyUnified(o+"\n", df); e2 == nil && g2 == w {
					vs = append(vs, Violation{Oracle: "diff-vs-inplace", Signature: "C12/diff-vs-inplace/final-newline-not-expressed", Detail: fmt.Sprintf("%s does not end in a newline; in-place mode writes it with one, but the --diff output carries no '\\ No newline at end of file' marker: applied with patch(1) semantics it %s", f.Path, map[bool]string{true: "does not apply (" + fmt.Sprint(err) + ")", false: "gives bytes that differ from the in-place result"}[err != nil])})
					continue
				}
			}
			if err != nil {
				add("diff-vs-inplace", "does-not-apply/"+tag, fmt.Sprintf("the diff for %s does not apply to the original: %v", f.Path, err))
				continue
			}
			if got != w {
				add("diff-vs-inplace", "differs/"+tag, fmt.Sprintf("applying the --diff output to %s gives %q, in-place mode wrote %q", f.Path, clip(got, 300), clip(w, 300)))
			}
		}
		if (rd.Exit != 0) != (rw.Exit != 0) {
			add("diff-vs-inplace", "exit/"+tag, fmt.Sprintf("--diff exit status %d but in-place mode exit status %d", rd.Exit, rw.Exit))
		}
	}
	// library API
	if len(c.Patches) == 1 && !c.Flags.SkipImport && !c.Flags.SkipGen {
		ap, pres := ParseAPI(env.Prog, "p.patch", c.Patches[0].Data)
		if ap != nil {
			type heldRes struct {
				path      string
				raw, want []byte
			}
			var held []heldRes
			defer func() {
				// one parsed patch served all files: what it returned for an earlier
				// file must still read the same after the later calls
				for _, h := range held {
					if !bytes.Equal(h.raw, h.want) {
						vs = append(vs, Violation{Oracle: "api-vs-inplace", Signature: "C12/api-vs-inplace/result-changed-later", Detail: fmt.Sprintf("the bytes Apply returned for %s equalled the in-place result when returned, but read %q after later Apply calls on the same parsed patch", h.path, clip(string(h.raw), 300))})
						break
					}
				}
			}()
			for _, f := range sorted {
				ares := ApplyAPI(ap, f.Path, orig[f.Path].Data)
				if ares.Raw != nil {
					held = append(held, heldRes{f.Path, ares.Raw, ares.Out})
					env.Probe("agree-api-result-held")
				}
				HashBytes([]byte(ares.Key()))
				if ares.Panic != "" || ares.NoProg {
					continue
				}
				env.Probe("agree-api")
				if failed[f.Path] {
					if !ares.IsErr {
						add("api-vs-inplace", "accepts-refused", fmt.Sprintf("Apply(%s) succeeded although the CLI refuses to rewrite the file", f.Path))
					}
					continue
				}
				if ares.IsErr {
					add("api-vs-inplace", "error", fmt.Sprintf("Apply(%s) returned error %q while the CLI patched the file", f.Path, ares.Err))
				} else if !bytes.Equal(ares.Out, final[f.Path].Data) {
					add("api-vs-inplace", "differs", fmt.Sprintf("Apply(%s) returned %q, in-place mode wrote %q", f.Path, clip(string(ares.Out), 300), clip(string(final[f.Path].Data), 300)))
				}
			}
		} else if !pres.IsErr {
			_ = pres
		}
	}
	// -v only adds its log lines, and only between (or before/after) the files' outputs:
	// stdout with -v must parse as  [log lines]* (segment(f) [log lines about f]*)*
	env.Probe("agree-verbose")
	vrest := string(rv.Stdout)
	isLogLine := func(line string) bool {
		for _, f := range c.Files {
			if strings.Contains(line, f.Path) {
				return true
			}
		}
		return false
	}
	stripLogs := func(rest string) string {
		for {
			nl := strings.IndexByte(rest, '\n')
			if nl < 0 || !isLogLine(rest[:nl]) {
				return rest
			}
			rest = rest[nl+1:]
		}
	}
	vok := true
	var vwhere string
	for _, f := range sorted {
		seg := ""
		if !failed[f.Path] {
			seg = string(final[f.Path].Data)
		} else if o := string(orig[f.Path].Data); o != "" && strings.HasPrefix(stripLogs(vrest), o) {
			seg = o
		}
		// log lines may precede the segment, but a segment that itself starts with
		// something that looks like a log line is taken first
		if !strings.HasPrefix(vrest, seg) || seg == "" {
			vrest = stripLogs(vrest)
		}
		if !strings.HasPrefix(vrest, seg) {
			vok = false
			vwhere = f.Path
			break
		}
		vrest = vrest[len(seg):]
		vrest = stripLogs(vrest)
	}
	if vok && strings.TrimSpace(stripLogs(vrest)) != "" {
		vok = false
		vwhere = "end of output"
	}
	if !vok {
		add("verbose", tag, fmt.Sprintf("with -v the --print-only output is not the files' outputs with log lines in between (first problem at %s)\nwith -v: %q\nwithout: %q", vwhere, clip(string(rv.Stdout), 400), clip(string(rp.Stdout), 400)))
	}
	// descriptions
	if c.Extra["readonly_target"] == "1" {
		env.Probe("agree-write-protected-target")
	}
	if rwv.Outcome == OutExit {
		// with -v the files end up exactly as without it
		fv2 := goFilesAll(rwv.Final)
		for _, f := range sorted {
			if !bytes.Equal(fv2[f.Path].Data, final[f.Path].Data) {
				add("verbose", "in-place-bytes/"+tag, fmt.Sprintf("with -v the default mode leaves %s as %q, without -v as %q", f.Path, clip(string(fv2[f.Path].Data), 200), clip(string(final[f.Path].Data), 200)))
				break
			}
		}
	}
	for _, r := range []*RunResult{rw, rp, rd, rv, rwv} {
		if r.Outcome != OutExit {
			continue
		}
		if bytes.Contains(r.Stdout, []byte("VFMARK")) {
			add("descriptions", "on-stdout", fmt.Sprintf("a description appears on stdout (%v): %q", r.W.Args, clip(string(r.Stdout), 300)))
		}
		for _, fsn := range r.Final {
			if fsn.Kind == world.KFile && strings.HasSuffix(fsn.Path, ".go") && bytes.Contains(fsn.Data, []byte("VFMARK")) {
				add("descriptions", "in-file", fmt.Sprintf("a description was written into %s", fsn.Path))
			}
		}
		for _, line := range strings.Split(string(r.Stderr), "\n") {
			idx := strings.Index(line, "VFMARK")
			if idx < 0 {
				continue
			}
			env.Probe("description-on-stderr")
			marker := line[idx:]
			prefix := strings.TrimSuffix(line[:idx], ":")
			ok := false
			for _, f := range c.Files {
				if f.Role != "match" {
					continue
				}
				if absTarget(prefix) == f.Path {
					for _, m := range f.Markers {
						if m == marker {
							ok = true
						}
					}
				}
			}
			if !ok {
				add("descriptions", "misplaced", fmt.Sprintf("stderr line %q is not <path>:<description> of a change that applies to that file (args %v)", line, r.W.Args))
			}
		}
	}
	if !env.Quiet {
		env.Stats.Sample(map[string]interface{}{"family": "agree", "args": c.Spec.Args, "files": c.Files, "print_bytes": len(rp.Stdout), "diff_sections": len(dfs)}, 2)
	}
	return vs
}

func c12Dry(env *Env, c *Case) []Violation {
	base := c.Spec.Clone()
	base.Faults = nil
	init := c.InitialState()
	var vs []Violation
	seen := map[string]bool{}
	mode := c.Flags.String()
	judge := func(faults []world.Fault) {
		spec := base.Clone()
		spec.Faults = faults
		r := env.Run(spec)
		class := "none"
		if len(r.Fired) > 0 {
			env.Probe("dry-fault-fired")
			f := r.Fired[0]
			class = f.Fault + ":" + f.Name
			if f.Fault == "kill" {
				env.Probe("dry-kill")
			}
			if f.Name == "stdout" && f.Fault == "fail" {
				env.Probe("dry-stdout-fail")
			}
		}
		env.Seen(c12Key(c, "dry|"+class))
		var v *Violation
		for _, o := range r.Log {
			if o.Mut && !o.Post {
				v = &Violation{Oracle: "dry-run-writes", Signature: "C12/dry-run-writes/" + o.Name + "@" + o.Site, Detail: fmt.Sprintf("with %s, mutating operation %s %s (seq %d, issued by %s) was performed; fault plan %v", mode, o.Name, o.Path, o.Seq, o.Site, faults)}
				break
			}
		}
		if v == nil {
			if d := SnapEqual(init, r.Final); d != "" {
				v = &Violation{Oracle: "dry-run-writes", Signature: "C12/dry-run-writes/digest", Detail: fmt.Sprintf("with %s the filesystem changed: %s; fault plan %v", mode, d, faults)}
			}
		}
		if v != nil && !seen[v.Signature] {
			seen[v.Signature] = true
			cc := c.Clone()
			cc.Spec.Faults = faults
			v.Case = cc
			vs = append(vs, *v)
		}
	}
	if len(c.Spec.Faults) > 0 {
		judge(c.Spec.Faults)
		return vs
	}
	pilot := env.Run(base)
	if pilot.Outcome != OutExit {
		return nil
	}
	judge(nil)
	var seedv uint64
	fmt.Sscan(c.Extra["rng"], &seedv)
	r := world.NewPRNG(seedv)
	wrote := wroteHandles(pilot.Log)
	for k, o := range pilot.Log {
		if o.Name == "exit" {
			continue
		}
		class := opClass(o, wrote)
		ens := c16Errnos[class]
		judge([]world.Fault{{AtOp: k, Kind: "kill", Bytes: -1}})
		f := world.Fault{AtOp: k, Kind: "fail", Errno: ens[r.Intn(len(ens))]}
		if (o.Name == "stdout" || o.Name == "stderr" || o.Name == "read") && o.N > 0 {
			f.Bytes = r.Intn(o.N + 1)
		}
		judge([]world.Fault{f})
	}
	if !env.Quiet {
		env.Stats.Sample(map[string]interface{}{"family": "dry", "args": c.Spec.Args, "pilot_ops": len(pilot.Log)}, 2)
	}
	return vs
}

func c12Key(c *Case, fam string) string {
	var parts []string
	parts = append(parts, fam)
	for _, p := range c.Patches {
		parts = append(parts, p.Via+":"+strings.Join(p.Triggers, ","))
	}
	for _, f := range c.Files {
		parts = append(parts, f.Role+":"+f.Note)
	}
	parts = append(parts, c.Flags.String())
	return strings.Join(parts, "|")
}

// goFilesAll is goFiles without the restriction to the working directory's
// tree: C12 also has targets in sibling directories.
func goFilesAll(snap []world.FileState) map[string]world.FileState {
	m := map[string]world.FileState{}
	for _, f := range snap {
		if f.Kind == world.KFile && strings.HasSuffix(f.Path, ".go") {
			m[f.Path] = f
		}
	}
	return m
}
