package harness

import (
	"bytes"
	"fmt"
	"regexp"
	"sort"
	"strings"
	"syscall"

	"verif.local/sim/world"
)

// C16 — Failures never leave half-written files and are always reported.
type c16 struct{}

func init() { Register(c16{}) }

func (c16) ID() string { return "C16" }

// the fault and restart families are expensive (hundreds of runs per world),
// the input-failure worlds cost one or two runs each: the index range above
// c16Heavy(tier) holds input-failure worlds only
func c16Heavy(tier string) int {
	if tier == "thorough" {
		return 60_000
	}
	return 400
}

func (c16) NumCases(tier string) int {
	if tier == "thorough" {
		return c16Heavy(tier) + 400_000
	}
	return c16Heavy(tier) + 4_600
}

func (c16) Describe() CheckInfo {
	return CheckInfo{
		Level: "fault_enumeration",
		Rule: "per seeded world (1-5 target files, 1-2 patches, in-place/diff/print mode) a fault-free pilot run yields the op sequence and the complete patched bytes; then EVERY operation of the pilot is failed once (errno by class) and the process is killed before every operation, and every file write is failed and killed after every byte offset 0..n (strided only above 160 bytes in the quick tier), plus seeded fault pairs; " +
			"restart worlds: the in-place run is killed before every operation from its first mutation on (and inside writes, and failed on a persistently full disk), then a second, fault-free invocation (same patch, or another patch with shorter output) runs on exactly what the first left behind and is compared with the same invocation on that state minus the leftovers; " +
			"input-failure worlds put an unparseable target, an unparseable-result (misfit) target, a missing path, an unreadable patch, -P list or list member at every position. " +
			"distinct = distinct (fault kind, op class, byte-offset class, role of the struck file, mode) tuples that actually fired",
		Assumptions: []string{
			"process-crash model: after a kill the simulated filesystem is frozen as it was (page cache survives); power-loss reordering of un-synced data is not modelled",
			"'complete patched bytes' of a file are what the fault-free pilot run of the same world leaves on disk",
			"a fault must be reported when it strikes open/read/write/close-after-write/rename/lstat/readdir/getwd of a patch, list, path or target; faults on the diagnostic stream itself cannot be reported and are only subject to the all-or-nothing check",
		},
		RealCode:       []string{"gopatch main()/runMain/mainCmd.Run, findFiles/findGoFiles, loader, internal/*, all dependencies"},
		Stubs:          []string{"package os (simulated filesystem with byte-granular write faults and kill), path/filepath walk, io/ioutil"},
		RequiredProbes: []string{"write-fault-after-truncate", "kill-between-open-and-first-byte", "kill-mid-write", "write-fault-mid-write", "open-fail-target", "open-fail-patch", "read-fail", "walk-fail", "unparseable-target", "misfit-target", "rewrite-error-target", "missing-path", "multi-file-fault-on-non-first", "fault-pair", "sticky-write-fault", "restart-second-run", "restart-with-leftover-temporary", "target-grows-between-walk-and-read", "path-with-shell-metacharacters", "patch-larger-than-a-megabyte", "input-failure-without-any-patch"},
	}
}

var c16Errnos = map[string][]string{
	"open-r":  {"EACCES", "ENOENT", "EMFILE", "EIO"},
	"open-w":  {"EACCES", "EROFS", "ENOSPC", "EDQUOT"},
	"read":    {"EIO", "ESTALE"},
	"stdin":   {"EIO"},
	"write":   {"ENOSPC", "EFBIG", "EIO", "EDQUOT"},
	"close-w": {"EIO", "ENOSPC", "EDQUOT"},
	"close-r": {"EIO"},
	"lstat":   {"EACCES", "ENOENT", "EIO"},
	"stat":    {"EACCES", "ENOENT"},
	"readdir": {"EACCES", "EIO"},
	"rename":  {"EXDEV", "EACCES", "ENOSPC", "EIO"},
	"getwd":   {"ENOENT"},
	"stdout":  {"EPIPE", "ENOSPC", "EAGAIN", "EINTR"},
	"stderr":  {"EPIPE"},
	"other":   {"EIO", "EPERM"},
}

func (c16) Gen(env *Env, seed uint64, tier string, i int) *Case {
	r := world.NewPRNG(world.Mix(seed, 16, uint64(i)))
	sub := "faults"
	if i%4 == 3 || i >= c16Heavy(tier) {
		sub = "inputs"
	} else if i%4 == 1 {
		sub = "restart"
	}
	c := NewCLICase("C16", sub, i, seed)
	if sub == "restart" {
		c16GenRestart(c, r)
		c.Extra["rng"] = fmt.Sprint(r.Uint64())
		c.RebuildArgs()
		return c
	}
	tm := []*Template{Templates[r.Intn(len(Templates))]}
	pp := GenPatchPlan(r, 2, append(tm, Templates...))
	pp.Install(c, r)
	all := pp.All()
	n := r.Range(1, 5)
	if sub == "faults" && tier != "thorough" {
		n = r.Range(1, 4)
	}
	for j := 0; j < n; j++ {
		dir := ""
		if r.Chance(1, 3) {
			dir = r.Pick([]string{"pkg/", "internal/x/"})
		} else if r.Chance(1, 6) {
			dir = OddDir(r)
		}
		roll := r.Intn(100)
		switch {
		case roll < 70:
			var cs []Change
			for _, ch := range all {
				if r.Chance(1, 2) {
					cs = append(cs, ch)
				}
			}
			if len(cs) == 0 {
				cs = []Change{all[r.Intn(len(all))]}
			}
			o := GoFileOpts{Funcs: 1, Style: "canonical"}
			for _, ch := range cs {
				if ch.T.Decl != nil {
					o.Decls = append(o.Decls, ch.T.Decl(r, ch.K))
				} else {
					o.Stmts = append(o.Stmts, ch.T.Stmt(r, ch.K))
				}
				if ch.T.Imports != nil {
					o.Imports = append(o.Imports, ch.T.Imports(ch.K)...)
				}
			}
			c.AddFile(fmt.Sprintf("%smt%d.go", dir, j), GenValidGoFile(r, o), "match", nil, "")
		case roll < 90:
			c.AddFile(fmt.Sprintf("%snm%d.go", dir, j), NonMatchingFile(r, r.Pick(Styles), ""), "nomatch", nil, "")
		default:
			c.AddFile(fmt.Sprintf("%sbad%d.go", dir, j), UnparseableFile(r), "unparseable", nil, "")
		}
	}
	AddDecoys(c, r)
	if r.Chance(1, 5) {
		AddHardlinkTarget(c, r)
	}
	c.Flags = Flags{SkipImport: r.Chance(1, 4), Verbose: r.Chance(1, 4)}
	if r.Chance(1, 6) {
		c.Flags.Diff = true
	} else if r.Chance(1, 6) {
		c.Flags.Print = true
	}
	if r.Chance(1, 2) {
		c.Targets = []string{r.Pick([]string{".", "./..."})}
	} else {
		for _, f := range c.Files {
			c.Targets = append(c.Targets, strings.TrimPrefix(f.Path, ProjDir+"/"))
		}
	}
	if r.Chance(1, 6) && len(all) > 0 {
		// a file inside an excluded directory, named explicitly AFTER the directory
		// that encloses it: the walk of the directory does not cover it
		ch := all[r.Intn(len(all))]
		o := GoFileOpts{Funcs: 1, Style: "canonical"}
		if ch.T.Decl != nil {
			o.Decls = append(o.Decls, ch.T.Decl(r, ch.K))
		} else {
			o.Stmts = append(o.Stmts, ch.T.Stmt(r, ch.K))
		}
		if ch.T.Imports != nil {
			o.Imports = append(o.Imports, ch.T.Imports(ch.K)...)
		}
		rel := r.Pick([]string{"testdata/fix/in.go", "vendor/dep/c.go", "_tools/gen.go", ".hidden/h.go"})
		top := ProjDir + "/" + strings.SplitN(rel, "/", 2)[0]
		clash := false
		for _, n := range c.Spec.Nodes {
			if n.Path == top && n.Kind != "dir" {
				clash = true // a decoy non-directory already carries that name
			}
		}
		if !clash {
			c.AddFile(rel, GenValidGoFile(r, o), "match", nil, "")
			c.Targets = []string{r.Pick([]string{".", "./..."}), rel}
			c.Extra["explicit_in_excluded"] = "1"
		}
	}
	if sub == "inputs" {
		c16Inputs(c, r)
	}
	c.Extra["rng"] = fmt.Sprint(r.Uint64())
	c.RebuildArgs()
	return c
}

// c16Inputs turns the world into one with a per-file or per-path input
// failure at a random position.
func c16Inputs(c *Case, r *world.PRNG) {
	defer func() {
		switch c.Extra["input_failure"] {
		case "unparseable", "many-unparseable", "missing-path", "unreadable-target", "dir-unreadable":
			if r.Chance(1, 6) {
				// no patch at all (the list given with -P names nothing): the
				// requested paths are looked at, and reported, all the same
				c.Extra["no_patches"] = "1"
				c.Extra["list_style"] = r.Pick([]string{"", "blank-lines"})
			}
		}
	}()
	kind := r.Pick([]string{"huge-patch", "literal-metachar-path", "many-unparseable", "misfit", "missing-path", "unreadable-patch", "unreadable-target", "missing-list-member", "unparseable", "unparseable-patch", "dir-unreadable", "rewrite-error", "rewrite-error"})
	c.Extra["input_failure"] = kind
	switch kind {
	case "huge-patch":
		// more than a megabyte of patch: a long description in front of the one
		// change that matters. Nothing about it fails; the file must be patched.
		var sb strings.Builder
		if r.Chance(1, 2) {
			for k := 0; sb.Len() < 1_100_000; k++ {
				fmt.Fprintf(&sb, "# %05d this change is described at great length, line after line after line\n", k)
			}
		} else {
			// 1024 changes of exactly 1024 bytes each: the first megabyte is a
			// well-formed patch of its own
			for k := 0; k < 1024; k++ {
				name := fmt.Sprintf("vfF%04d%s", k, strings.Repeat("x", 498))
				fmt.Fprintf(&sb, "@@\n@@\n-%s()\n+%sy()\n", name, name[:504])
			}
		}
		sb.WriteString("@@\n@@\n-vfHugeOld()\n+vfHugeNew()\n")
		c.AddPatch("huge.patch", "p", []byte(sb.String()), nil, nil)
		p := c.AddFile("zz_huge_target.go", []byte("package sample\n\nfunc h() {\n\tvfHugeOld()\n}\n"), "match", nil, "huge-patch")
		c.Targets = append(c.Targets, strings.TrimPrefix(p, ProjDir+"/"))
		c.Flags.Diff, c.Flags.Print = false, false
	case "literal-metachar-path":
		// a requested file whose name contains characters that mean something to
		// a shell: gopatch is given the literal path and patches that file, not
		// what the characters would match as a pattern
		dir := r.Pick([]string{"api/v[2]", "gen[ab]", "what?", "star*dir", "a[", "[x]"})
		fn := r.Pick([]string{"client.go", "c[l]ient.go", "cl?ent.go"})
		plain := strings.NewReplacer("[2]", "2", "[ab]", "a", "?", "t", "*", "", "[x]", "x", "[l]", "l").Replace(dir + "/" + fn)
		c.AddPatch("meta.patch", "p", []byte("@@\n@@\n-vfGlobOld()\n+vfGlobNew()\n"), nil, nil)
		src := []byte("package sample\n\nfunc h() {\n\tvfGlobOld()\n}\n")
		p := c.AddFile(dir+"/"+fn, src, "match", nil, "metachar")
		c.Extra["metachar"] = p
		if plain != dir+"/"+fn {
			c.Extra["metachar_sibling"] = c.AddFile(plain, src, "bystander", nil, "metachar")
		}
		keep := c.Targets[:0:0]
		for _, t := range c.Targets {
			// only explicitly named files: the sibling is not requested
			if strings.HasSuffix(t, ".go") {
				keep = append(keep, t)
			}
		}
		c.Targets = append(keep, strings.TrimPrefix(p, ProjDir+"/"))
		c.Flags.Diff, c.Flags.Print = false, false
	case "many-unparseable":
		// a dozen, or a number of failures at which a count that is kept in too
		// narrow a place wraps around
		n := []int{12, 12, 255, 256, 257, 512, 1024}[r.Intn(7)]
		for k := 0; k < n; k++ {
			data := UnparseableFile(r)
			if n > 12 {
				data = []byte("package bad\n\nfunc {\n")
			}
			c.AddFile(fmt.Sprintf("bad/e%04d.go", k), data, "unparseable", nil, "")
		}
		if n > 12 {
			// the number of failures of the run is exactly n: nothing else in it fails
			for _, f := range append([]FileMeta(nil), c.Files...) {
				if (f.Role == "unparseable" || f.Role == "misfit" || f.Role == "rewrite-error") && !strings.HasPrefix(f.Path, ProjDir+"/bad/") {
					c.DropFile(f.Path)
				}
			}
			c.Extra["failures"] = fmt.Sprint(n)
		}
		c.Targets = []string{"."}
	case "unparseable":
		c.AddFile(fmt.Sprintf("%sbadx.go", r.Pick([]string{"", "a/", "zz/", OddDir(r)})), UnparseableFile(r), "unparseable", nil, "")
		c.Targets = []string{"."}
	case "rewrite-error":
		// one file is matched by a change that rewrites fine AND by a change whose
		// replacement does not fit (in either order, in one patch file or two)
		good := "@@\n@@\n-vfGoodOld\n+vfGoodNew\n"
		ill := "@@\nvar f expression\n@@\n-f(vfIll)\n+f.f(vfIll)\n"
		for i := range c.Patches {
			if c.Patches[i].Via == "stdin" {
				c.Patches[i].Via = "p"
				c.Patches[i].Path = PatDir + "/p0.patch"
				c.SetNode(world.NodeSpec{Path: c.Patches[i].Path, Kind: "file", Data: c.Patches[i].Data})
			}
		}
		via := c.Patches[0].Via
		switch r.Intn(4) {
		case 0:
			c.AddPatch("two.patch", via, []byte(good+"\n"+ill), nil, nil)
		case 1:
			c.AddPatch("two.patch", via, []byte(ill+"\n"+good), nil, nil)
		case 2:
			c.AddPatch("good.patch", via, []byte(good), nil, nil)
			c.AddPatch("ill.patch", via, []byte(ill), nil, nil)
		default:
			c.AddPatch("ill.patch", via, []byte(ill), nil, nil)
			c.AddPatch("good.patch", via, []byte(good), nil, nil)
		}
		src := "package sample\n\nfunc rewr() {\n\tvfGoodOld()\n\tc.conn.Close(vfIll)\n\tvfGoodOld(3)\n}\n"
		p := c.AddFile(fmt.Sprintf("%srewr.go", r.Pick([]string{"", "a/", "zz/", OddDir(r)})), []byte(src), "rewrite-error", nil, "")
		c.Targets = append(c.Targets, strings.TrimPrefix(p, ProjDir+"/"))
	case "misfit":
		m := Misfits[r.Intn(len(Misfits))]
		k := 40 + r.Intn(5)
		c.AddPatch("misfit.patch", "p", []byte(m.Patch(k)), nil, nil)
		src := GenValidGoFile(r, GoFileOpts{Funcs: 1, Stmts: []string{m.Stmt(k)}})
		p := c.AddFile(fmt.Sprintf("%smis.go", r.Pick([]string{"", "a/", "zz/"})), src, "misfit", nil, m.Name)
		c.Targets = append(c.Targets, strings.TrimPrefix(p, ProjDir+"/"))
	case "missing-path":
		pos := r.Intn(len(c.Targets) + 1)
		name := r.Pick([]string{"nosuch", "nosuch.go", "pkg/none/...", "/sim/w/absent", "intrenal/*.go", "nosuch[1].go", "what?.go", "pkg/v[2]/...", "*.go"})
		if name == "*.go" {
			// a pattern the shell left alone because nothing matched it
			c.Targets = nil
			for _, f := range append([]FileMeta(nil), c.Files...) {
				if !strings.Contains(strings.TrimPrefix(f.Path, ProjDir+"/"), "/") {
					c.DropFile(f.Path)
				}
			}
			pos = 0
		}
		t := append([]string{}, c.Targets[:pos]...)
		t = append(t, name)
		t = append(t, c.Targets[pos:]...)
		c.Targets = t
		c.Extra["missing"] = name
	case "unreadable-patch":
		for i := range c.Patches {
			if c.Patches[i].Via == "stdin" {
				c.Patches[i].Via = "p"
				c.Patches[i].Path = PatDir + "/p0.patch"
			}
		}
		i := r.Intn(len(c.Patches))
		c.SetNode(world.NodeSpec{Path: c.Patches[i].Path, Kind: "file", Data: c.Patches[i].Data, Mode: 0o200})
		c.Extra["unreadable"] = c.Patches[i].Path
	case "unreadable-target":
		i := r.Intn(len(c.Files))
		c.SetNode(world.NodeSpec{Path: c.Files[i].Path, Kind: "file", Data: c.NodeData(c.Files[i].Path), Mode: 0o200})
		c.Extra["unreadable"] = c.Files[i].Path
		c.Files[i].Role = "unreadable"
	case "missing-list-member":
		for i := range c.Patches {
			c.Patches[i].Via = "P"
			if c.Patches[i].Path == "stdin" {
				c.Patches[i].Path = PatDir + "/p0.patch"
				c.SetNode(world.NodeSpec{Path: c.Patches[i].Path, Kind: "file", Data: c.Patches[i].Data})
			}
		}
		c.Patches = append(c.Patches, PatchMeta{Path: PatDir + "/gone.patch", Via: "P"})
		c.Extra["unreadable"] = PatDir + "/gone.patch"
	case "unparseable-patch":
		c.AddPatch("broken.patch", "p", []byte("@@\nvar x expression\n@@\n-foo(x\n+bar(x)\n"), nil, nil)
		c.Extra["badpatch"] = PatDir + "/broken.patch"
	case "dir-unreadable":
		c.AddFile("locked/in.go", NonMatchingFile(r, "canonical", ""), "unreachable", nil, "")
		c.SetNode(world.NodeSpec{Path: ProjDir + "/locked", Kind: "dir", Mode: 0o300})
		c.Targets = []string{"."}
		c.Extra["unreadable"] = ProjDir + "/locked"
	}
}

type c16Plan struct {
	faults []world.Fault
	class  string // op class struck
	path   string
	desc   string
}

func wroteHandles(log []world.Op) map[int]bool {
	m := map[int]bool{}
	for _, o := range log {
		if o.H != 0 && (o.Name == "write" || (o.Name == "open" && o.Flags&(world.O_WRONLY|world.O_RDWR) != 0)) {
			m[o.H] = true
		}
	}
	return m
}

func mustReportClass(class string) bool {
	switch class {
	case "open-r", "open-w", "read", "stdin", "write", "close-w", "rename", "lstat", "readdir", "getwd":
		return true
	}
	return false
}

func opClass(o world.Op, wrote map[int]bool) string {
	switch o.Name {
	case "open":
		if o.Flags&(world.O_WRONLY|world.O_RDWR|world.O_CREATE|world.O_TRUNC) != 0 {
			return "open-w"
		}
		return "open-r"
	case "close":
		if wrote[o.H] {
			return "close-w"
		}
		return "close-r"
	case "read", "stdin", "write", "lstat", "stat", "readdir", "rename", "getwd", "stdout", "stderr":
		return o.Name
	}
	return "other"
}

func (c16) Eval(env *Env, c *Case) []Violation {
	if c.Sub == "inputs" {
		return c16EvalInputs(env, c)
	}
	if c.Sub == "restart" {
		return c16EvalRestart(env, c)
	}
	base := c.Spec.Clone()
	base.Faults = nil
	pilot := env.Run(base)
	if pilot.Outcome != OutExit {
		env.Probe("pilot-did-not-exit")
		return nil
	}
	init := c.InitialState()
	var vs []Violation
	seenSig := map[string]bool{}
	// exit status 0 of the fault-free run is trustworthy too: every file built to
	// match has been patched
	if pilot.Exit == 0 && !c.Flags.Diff && !c.Flags.Print && len(c.Spec.Faults) == 0 {
		o0, f0 := goFiles(init), goFiles(pilot.Final)
		for _, f := range c.SortedFiles() {
			if f.Role == "match" && bytes.Equal(o0[f.Path].Data, f0[f.Path].Data) {
				env.Probe("pilot-sanity-checked")
				vs = append(vs, Violation{Oracle: "exit-status", Signature: "C16/exit-status/zero-but-unpatched/fault-free", Detail: fmt.Sprintf("the fault-free run exits 0 but left %s, which the patch matches, unpatched (args %v)", f.Path, c.Spec.Args)})
				break
			}
		}
	}
	judge := func(faults []world.Fault, class string) {
		spec := base.Clone()
		spec.Faults = faults
		r := env.Run(spec)
		for _, v := range c16Judge(env, c, init, pilot, r, class) {
			if seenSig[v.Signature] {
				continue
			}
			seenSig[v.Signature] = true
			cc := c.Clone()
			cc.Spec.Faults = faults
			cc.Extra["class"] = class
			v.Case = cc
			vs = append(vs, v)
		}
	}
	if len(c.Spec.Faults) > 0 {
		// replay of one explicit plan
		if c.Spec.Faults[0].Kind == "extern" {
			return append(vs, c16Extern(env, c, base, pilot, seenSig)...)
		}
		judge(c.Spec.Faults, c.Extra["class"])
		return vs
	}
	var seedv uint64
	fmt.Sscan(c.Extra["rng"], &seedv)
	r := world.NewPRNG(seedv)
	wrote := wroteHandles(pilot.Log)
	thorough := env.Tier == "thorough"
	for k, o := range pilot.Log {
		if o.Name == "exit" {
			continue
		}
		if env.Expired() {
			env.Probe("case-cut-short-by-deadline")
			break
		}
		class := opClass(o, wrote)
		ens := c16Errnos[class]
		// kill before the op
		judge([]world.Fault{{AtOp: k, Kind: "kill", Bytes: -1}}, class)
		// fail the op
		if o.Name == "write" || o.Name == "stdout" || o.Name == "stderr" {
			n := o.N
			for j := 0; j <= n; j++ {
				if !thorough && n > 160 && j > 48 && j < n-48 && j%17 != 0 {
					continue
				}
				judge([]world.Fault{{AtOp: k, Kind: "fail", Bytes: j, Errno: ens[r.Intn(len(ens))]}}, class)
				if j > 0 && j < n && o.Name == "write" {
					judge([]world.Fault{{AtOp: k, Kind: "kill", Bytes: j}}, class)
				}
			}
			if o.Name == "write" {
				// the condition persists (disk full, quota, file size limit): every later file write fails too
				for _, j := range []int{0, n / 2, n - 1} {
					if j >= 0 {
						env.Probe("sticky-write-fault")
						judge([]world.Fault{{AtOp: k, Kind: "fail", Bytes: j, Errno: []string{"ENOSPC", "EFBIG", "EDQUOT"}[r.Intn(3)], Sticky: true}}, class)
					}
				}
			}
			continue
		}
		if o.Name == "read" || o.Name == "stdin" {
			judge([]world.Fault{{AtOp: k, Kind: "fail", Errno: ens[r.Intn(len(ens))]}}, class)
			if o.N > 1 {
				judge([]world.Fault{{AtOp: k, Kind: "fail", Bytes: 1 + r.Intn(o.N-1), Errno: "EIO"}}, class)
			}
			continue
		}
		if thorough {
			for _, e := range ens {
				judge([]world.Fault{{AtOp: k, Kind: "fail", Errno: e}}, class)
			}
		} else {
			judge([]world.Fault{{AtOp: k, Kind: "fail", Errno: ens[r.Intn(len(ens))]}}, class)
		}
	}
	// signals: if the program handles (or ignores) termination signals itself, a
	// signal before any operation is a fault of its own kind - without a handler it
	// is the kill already enumerated above
	if pilot.W != nil && pilot.W.SignalsNotified {
		for k, o := range pilot.Log {
			if o.Name == "exit" || env.Expired() {
				continue
			}
			env.Probe("signal-delivered-to-handler")
			judge([]world.Fault{{AtOp: k, Kind: "signal", Errno: []string{"SIGTERM", "SIGINT"}[k%2]}}, opClass(o, wrote))
		}
	}
	// seeded fault pairs: a non-fatal failure followed by a second fault later on
	npairs := 6
	if thorough {
		npairs = 24
	}
	for p := 0; p < npairs && len(pilot.Log) > 2; p++ {
		k1 := r.Intn(len(pilot.Log) - 1)
		o1 := pilot.Log[k1]
		cl1 := opClass(o1, wrote)
		f1 := world.Fault{AtOp: k1, Kind: "fail", Errno: c16Errnos[cl1][0]}
		if o1.Name == "write" {
			f1.Bytes = r.Intn(o1.N + 1)
		}
		spec := base.Clone()
		spec.Faults = []world.Fault{f1}
		r1 := RunCLI(env.Prog, spec)
		if len(r1.Log) <= k1+2 {
			continue
		}
		k2 := k1 + 1 + r.Intn(len(r1.Log)-k1-1)
		o2 := r1.Log[k2]
		if o2.Name == "exit" {
			continue
		}
		cl2 := opClass(o2, wrote)
		f2 := world.Fault{AtOp: k2, Kind: r.Pick([]string{"fail", "kill"}), Errno: c16Errnos[cl2][0], Bytes: -1}
		if f2.Kind == "fail" {
			f2.Bytes = 0
		}
		if o2.Name == "write" && o2.N > 0 {
			f2.Bytes = r.Intn(o2.N)
		}
		env.Probe("fault-pair")
		judge([]world.Fault{f1, f2}, "pair:"+cl1+"+"+cl2)
	}
	vs = append(vs, c16Extern(env, c, base, pilot, seenSig)...)
	if !env.Quiet {
		env.Stats.Sample(map[string]interface{}{"args": c.Spec.Args, "pilot_ops": len(pilot.Log), "files": c.Files, "example_fault": world.Fault{AtOp: len(pilot.Log) / 2, Kind: "kill", Bytes: -1}}, 3)
	}
	return vs
}

var reLineCol = regexp.MustCompile(`:[0-9]+:[0-9]+`)

// namesPath reports whether text names the absolute path p, either literally,
// relative to the project directory, or through one of the arguments.
func namesPath(c *Case, text, p string) bool {
	if strings.Contains(text, p) {
		return true
	}
	if rel := strings.TrimPrefix(p, ProjDir+"/"); rel != p && strings.Contains(text, rel) {
		return true
	}
	for _, a := range c.Spec.Args {
		if strings.HasPrefix(a, "-") {
			continue
		}
		if absTarget(a) == p && strings.Contains(text, strings.TrimSuffix(a, "...")) && a != "." && a != "./..." {
			return true
		}
	}
	return false
}

func errnoText(name string) string {
	w := world.New(world.Spec{})
	_ = w
	for _, e := range []syscall.Errno{syscall.EACCES, syscall.EROFS, syscall.ENOENT, syscall.EMFILE, syscall.ELOOP, syscall.EISDIR, syscall.EIO, syscall.ENOSPC, syscall.EFBIG, syscall.EDQUOT, syscall.EPIPE, syscall.ENOTDIR, syscall.EEXIST, syscall.EPERM, syscall.EXDEV, syscall.ENOTEMPTY, syscall.EINVAL, syscall.EBUSY, syscall.ENFILE, syscall.ENOMEM, syscall.EINTR, syscall.ESTALE, syscall.EBADF} {
		if world.ErrnoName(e) == name {
			return e.Error()
		}
	}
	return name
}

// goFiles returns the regular *.go files of a snapshot below the project dir.
func goFiles(snap []world.FileState) map[string]world.FileState {
	m := map[string]world.FileState{}
	for _, f := range snap {
		if f.Kind == world.KFile && strings.HasSuffix(f.Path, ".go") && strings.HasPrefix(f.Path, ProjDir+"/") {
			m[f.Path] = f
		}
	}
	return m
}

func c16Judge(env *Env, c *Case, init []world.FileState, pilot, r *RunResult, class string) []Violation {
	var vs []Violation
	add := func(oracle, sig, detail string) {
		vs = append(vs, Violation{Oracle: oracle, Signature: "C16/" + oracle + "/" + sig, Detail: detail})
	}
	crashed := r.Outcome == OutCrash || r.Outcome == OutNoProgress
	if crashed {
		env.Probe("faulty-run-crashed")
		// a crash under an injected fault still must not tear files; fall through
	}
	if len(r.Fired) == 0 {
		return nil
	}
	first := r.Fired[0]
	if crashed && pilot.Outcome == OutExit {
		what := NormalizePanic(r.Panic) + "@" + InnermostRepoFunc(r.Stack)
		if r.Outcome == OutNoProgress {
			what = "no-progress@" + r.Spin
		}
		add("crash-under-fault", what, fmt.Sprintf("an injected %s on %s %s (%s) made gopatch crash instead of reporting the failure: %s\n%s", first.Fault, first.Name, first.Path, first.Err, r.Panic, clip(r.Stack, 1200)))
	}
	wroteH := wroteHandles(r.Log)
	isPair := strings.HasPrefix(class, "pair:")
	if !isPair {
		class = opClass(first, wroteH)
	}
	mode := "in-place"
	if c.Flags.Diff {
		mode = "diff"
	} else if c.Flags.Print {
		mode = "print"
	}
	// probes and distinct tuples
	offClass := ""
	if first.Name == "write" {
		switch {
		case first.N == 0:
			offClass = "0"
		default:
			offClass = "mid"
		}
		for _, o := range pilot.Log {
			if o.Seq == first.Seq && o.N == first.N {
				offClass = "full"
			}
		}
		if first.Fault == "fail" && offClass == "0" {
			env.Probe("write-fault-after-truncate")
		}
		if first.Fault == "fail" && offClass == "mid" {
			env.Probe("write-fault-mid-write")
		}
		if first.Fault == "kill" && offClass == "mid" {
			env.Probe("kill-mid-write")
		}
	}
	if first.Fault == "kill" && class == "write" && first.N == 0 {
		env.Probe("kill-between-open-and-first-byte")
	}
	role := "other"
	pos := -1
	sorted := c.SortedFiles()
	for i, f := range sorted {
		if f.Path == first.Path {
			role = f.Role
			pos = i
		}
	}
	for _, p := range c.Patches {
		if p.Path == first.Path {
			role = "patch"
		}
	}
	if pos > 0 {
		env.Probe("multi-file-fault-on-non-first")
	}
	switch {
	case class == "open-r" && role == "patch":
		env.Probe("open-fail-patch")
	case (class == "open-r" || class == "open-w") && pos >= 0:
		env.Probe("open-fail-target")
	case class == "read":
		env.Probe("read-fail")
	case class == "lstat" || class == "readdir":
		env.Probe("walk-fail")
	}
	env.Seen(fmt.Sprintf("%s|%s|%s|%s|%s|%d", first.Fault, class, offClass, role, mode, len(r.Fired)))

	// ---- 1. all-or-nothing ---------------------------------------------------
	orig := goFiles(init)
	want := goFiles(pilot.Final)
	got := goFiles(r.Final)
	var paths []string
	for p := range orig {
		paths = append(paths, p)
	}
	sort.Strings(paths)
	firstUnpatched := ""
	for _, p := range paths {
		g, ok := got[p]
		if !ok {
			add("all-or-nothing", "missing/"+class+"/"+first.Fault, fmt.Sprintf("after %s at op %d (%s %s), Go file %s no longer exists", first.Fault, first.Seq, first.Name, first.Path, p))
			continue
		}
		isOrig := bytes.Equal(g.Data, orig[p].Data)
		isNew := bytes.Equal(g.Data, want[p].Data)
		if !isOrig && !isNew {
			site := ""
			for _, o := range r.Log {
				if o.Mut && (o.Path == p || o.Ino == orig[p].Ino) {
					site = o.Name + "@" + o.Site
					break
				}
			}
			add("all-or-nothing", "torn/"+site+"/"+first.Fault, fmt.Sprintf("after %s at op %d (%s %s, %d bytes let through, errno %s) Go file %s holds %d bytes that are neither its original %d bytes nor its complete patched %d bytes: %q",
				first.Fault, first.Seq, first.Name, first.Path, first.N, first.Err, p, len(g.Data), len(orig[p].Data), len(want[p].Data), clip(string(g.Data), 120)))
		}
		if !isNew && firstUnpatched == "" {
			firstUnpatched = p
		}
	}
	for p, g := range got {
		if _, ok := orig[p]; !ok {
			okc := false
			for _, w := range want {
				if bytes.Equal(w.Data, g.Data) {
					okc = true
				}
			}
			if !okc {
				add("all-or-nothing", "stray-go-file/"+first.Fault, fmt.Sprintf("a new Go file %s with incomplete content was left behind after %s at op %d", p, first.Fault, first.Seq))
			}
		}
	}
	// files that are not Go sources must never be touched, whatever happens
	for _, st := range init {
		if st.Kind != world.KFile || strings.HasSuffix(st.Path, ".go") || !strings.HasPrefix(st.Path, ProjDir+"/") {
			continue
		}
		g := FindState(r.Final, st.Path)
		if g == nil || !bytes.Equal(g.Data, st.Data) {
			add("all-or-nothing", "bystander-file-changed/"+first.Fault, fmt.Sprintf("%s, which is not a Go file, was %s", st.Path, map[bool]string{true: "removed", false: "modified"}[g == nil]))
		}
	}
	if r.Outcome == OutKilled {
		return vs
	}
	if r.Outcome != OutExit {
		return vs
	}
	// ---- consequence of the fault ------------------------------------------------
	// A fault needs reporting only if it kept gopatch from processing something:
	// a file the fault-free run patches is not patched, or (dry-run modes) the
	// output differs from the fault-free output. A program that copes with the
	// fault (retry, fallback, an lstat whose result it did not need) owes nothing.
	stderrFaulted0 := false
	stdoutFaulted := false
	for _, f := range r.Fired {
		if f.Name == "stderr" {
			stderrFaulted0 = true
		}
		if f.Name == "stdout" {
			stdoutFaulted = true
		}
	}
	consequence := firstUnpatched != ""
	if !consequence && (c.Flags.Diff || c.Flags.Print) && !c.Flags.Verbose && !bytes.Equal(r.Stdout, pilot.Stdout) {
		consequence = true
	}
	if !consequence && pilot.Exit == 0 && r.Exit != 0 {
		consequence = true // the run itself says something went wrong
	}
	mustReport := consequence && !stderrFaulted0
	// ---- 4. exit 0 is trustworthy --------------------------------------------
	if r.Exit == 0 {
		switch {
		case firstUnpatched != "":
			add("exit-status", "zero-but-unpatched/"+class, fmt.Sprintf("exit status 0 but %s was left unpatched after %s on %s %s", firstUnpatched, first.Err, first.Name, first.Path))
		case consequence && pilot.Exit == 0:
			add("exit-status", "zero-but-output-incomplete/"+mode, fmt.Sprintf("exit status 0 although the %s output differs from the fault-free run after %s on %s %s", mode, first.Err, first.Name, first.Path))
		case stdoutFaulted && (c.Flags.Diff || c.Flags.Print) && !c.Flags.Verbose && pilot.Exit == 0:
			add("exit-status", "zero-after-output-failure/"+mode, fmt.Sprintf("exit status 0 although writing the %s output failed with %s", mode, first.Err))
		}
		return vs
	}
	if isPair || first.Fault == "signal" {
		// an interrupted run owes a non-zero status (checked above), not an errno
		return vs
	}
	// ---- 2b. failures found before the fault struck are still reported -------
	stderrFaulted := false
	for _, f := range r.Fired {
		if f.Name == "stderr" {
			stderrFaulted = true
		}
	}
	if !stderrFaulted {
		for _, f := range c.Files {
			if f.Role != "unparseable" || f.Path == first.Path {
				continue
			}
			readDone := false
			for _, o := range r.Log {
				if o.Seq >= first.Seq {
					break
				}
				if o.Name == "close" && o.Path == f.Path {
					readDone = true
				}
			}
			if readDone && !namesPath(c, string(r.Stderr), f.Path) {
				env.Probe("earlier-failure-then-fault")
				add("reported", "earlier-failure-dropped/"+class, fmt.Sprintf("unparseable file %s had been read before %s %s failed, but the run's stderr does not name it: %q", f.Path, first.Name, first.Path, clip(string(r.Stderr), 400)))
			}
		}
	}
	// ---- 2c. a failure inside the per-file loop leaves no file out silently -------
	// Once gopatch has begun processing targets, a file it fails on must not take
	// others down with it unnoticed: every file the fault-free run patches is
	// afterwards either patched or named on stderr. (Failures before the loop -
	// loading patches, enumerating paths - abort the run as a whole, and a dead
	// output stream ends a preview; those are not judged here.)
	if !stderrFaulted && class != "stdout" && class != "stderr" {
		targets := map[string]bool{}
		for _, f := range c.Files {
			targets[f.Path] = true
		}
		loopBegun := false
		for _, o := range r.Log {
			if o.Seq >= first.Seq {
				break
			}
			if o.Name == "open" && targets[o.Path] {
				loopBegun = true
			}
		}
		if targets[first.Path] && (first.Name == "open" || first.Name == "read") {
			loopBegun = true
		}
		if loopBegun {
			env.Probe("fault-inside-file-loop")
			for _, p := range paths {
				g, ok := got[p]
				if !ok || !bytes.Equal(g.Data, orig[p].Data) || bytes.Equal(orig[p].Data, want[p].Data) {
					continue
				}
				if !namesPath(c, string(r.Stderr), p) {
					add("reported", "left-out-silently/"+class, fmt.Sprintf("%s %s failed (%s); %s, which the fault-free run patches, was left unpatched and stderr does not name it: %q", first.Name, first.Path, first.Err, p, clip(string(r.Stderr), 400)))
					break
				}
			}
		}
	}
	// ---- 2. reported ----------------------------------------------------------
	if mustReport && mustReportClass(class) {
		stderr := string(r.Stderr)
		cause := errnoText(first.Err)
		if !strings.Contains(stderr, cause) {
			add("reported", "cause-missing/"+class, fmt.Sprintf("%s %s failed with %q but stderr does not state the cause: %q", first.Name, first.Path, cause, clip(stderr, 400)))
		}
		named := false
		switch class {
		case "open-w", "write", "close-w", "rename":
			// the write phase may go through a temporary name: the target that failed must be named
			named = namesPath(c, stderr, first.Path) || (firstUnpatched != "" && namesPath(c, stderr, firstUnpatched))
		case "getwd", "stdin":
			named = true
		default:
			named = namesPath(c, stderr, first.Path)
		}
		if !named {
			add("reported", "path-missing/"+class, fmt.Sprintf("%s %s failed (%s) but stderr does not name the path: %q", first.Name, first.Path, first.Err, clip(stderr, 400)))
		}
	}
	return vs
}

// c16EvalInputs judges the fault-free input-failure worlds.
func c16EvalInputs(env *Env, c *Case) []Violation {
	var vs []Violation
	kind := c.Extra["input_failure"]
	add := func(oracle, sig, detail string) {
		vs = append(vs, Violation{Oracle: oracle, Signature: "C16/" + oracle + "/" + sig + "/" + kind, Detail: detail})
	}
	init := c.InitialState()
	r := env.Run(c.Spec)
	if r.Outcome == OutCrash {
		// a failing input must be REPORTED: a traceback names neither path nor cause,
		// drops what was collected for earlier files and leaves the rest unprocessed
		add("reported", "crash-instead-of-diagnostic", fmt.Sprintf("a run containing a %s ended in a panic instead of a diagnostic: %s\n%s", kind, r.Panic, clip(r.Stack, 900)))
		return vs
	}
	if r.Outcome != OutExit {
		env.Probe("run-did-not-exit")
		return nil
	}
	switch kind {
	case "rewrite-error":
		env.Probe("rewrite-error-target")
	case "unparseable", "many-unparseable":
		env.Probe("unparseable-target")
	case "misfit":
		env.Probe("misfit-target")
	case "missing-path":
		env.Probe("missing-path")
	}
	env.Seen("inputs|" + kind + "|" + c.Flags.String() + "|" + fmt.Sprint(len(c.Files)))
	if c.Extra["no_patches"] == "1" {
		env.Probe("input-failure-without-any-patch")
	}
	stderr := string(r.Stderr)
	if kind == "huge-patch" {
		env.Probe("patch-larger-than-a-megabyte")
		g := FindState(r.Final, ProjDir+"/zz_huge_target.go")
		if r.Exit == 0 && (g == nil || !bytes.Contains(g.Data, []byte("vfHugeNew()"))) {
			add("exit-status", "zero-but-unpatched", fmt.Sprintf("exit status 0 but the change at the end of a %d-byte patch was not applied to zz_huge_target.go", len(c.Patches[len(c.Patches)-1].Data)))
		}
		return vs
	}
	if kind == "literal-metachar-path" {
		env.Probe("path-with-shell-metacharacters")
		g := FindState(r.Final, c.Extra["metachar"])
		if r.Exit == 0 && (g == nil || !bytes.Contains(g.Data, []byte("vfGlobNew()"))) {
			add("exit-status", "zero-but-unpatched", fmt.Sprintf("exit status 0 but the requested file %s was not patched; stderr %q", c.Extra["metachar"], clip(stderr, 300)))
		}
		if sp := c.Extra["metachar_sibling"]; sp != "" {
			if g := FindState(r.Final, sp); g == nil || bytes.Contains(g.Data, []byte("vfGlobNew()")) {
				add("isolation", "unrequested-file-patched", fmt.Sprintf("%s was not requested (the argument was the literal path %s) and was patched", sp, c.Extra["metachar"]))
			}
		}
		return vs
	}
	if r.Exit == 0 {
		add("exit-status", "zero", fmt.Sprintf("exit status 0 although the run contained a %s; stderr %q", kind, clip(stderr, 300)))
	}
	// which path must be named, and with which cause
	switch kind {
	case "unparseable", "many-unparseable", "misfit", "rewrite-error":
		for _, f := range c.Files {
			if f.Role != "unparseable" && f.Role != "misfit" && f.Role != "rewrite-error" {
				continue
			}
			if !namesPath(c, stderr, f.Path) {
				add("reported", "path-missing", fmt.Sprintf("%s file %s is not named on stderr: %q", f.Role, f.Path, clip(stderr, 400)))
			}
			if f.Role != "rewrite-error" && !reLineCol.MatchString(stderr) {
				add("reported", "cause-missing", fmt.Sprintf("no line:column diagnostic for %s file %s: %q", f.Role, f.Path, clip(stderr, 400)))
			}
			if strings.Contains(stderr, "%!") {
				add("reported", "garbled", fmt.Sprintf("the diagnostic for %s is garbled: %q", f.Path, clip(stderr, 400)))
			}
		}
	case "missing-path":
		name := strings.TrimSuffix(c.Extra["missing"], "...")
		name = strings.TrimSuffix(name, "/")
		if !strings.Contains(stderr, name) {
			add("reported", "path-missing", fmt.Sprintf("missing path %q is not named on stderr: %q", name, clip(stderr, 400)))
		}
		if !strings.Contains(stderr, syscall.ENOENT.Error()) {
			add("reported", "cause-missing", fmt.Sprintf("stderr does not say why path %q could not be processed: %q", name, clip(stderr, 400)))
		}
	case "unreadable-patch", "unreadable-target", "missing-list-member", "dir-unreadable":
		p := c.Extra["unreadable"]
		if !namesPath(c, stderr, p) {
			add("reported", "path-missing", fmt.Sprintf("%s is not named on stderr: %q", p, clip(stderr, 400)))
		}
		cause := syscall.EACCES.Error()
		if kind == "missing-list-member" {
			cause = syscall.ENOENT.Error()
		}
		if !strings.Contains(stderr, cause) {
			add("reported", "cause-missing", fmt.Sprintf("stderr does not state the cause %q for %s: %q", cause, p, clip(stderr, 400)))
		}
	case "unparseable-patch":
		if !strings.Contains(stderr, "broken.patch") {
			add("reported", "path-missing", fmt.Sprintf("unparseable patch is not named on stderr: %q", clip(stderr, 400)))
		}
	}
	// all-or-nothing and isolation: compare every other file with the run of the
	// same world without the failing element
	ref := c.Clone()
	switch kind {
	case "unparseable", "many-unparseable", "misfit", "rewrite-error":
		for _, f := range c.Files {
			if f.Role == "unparseable" || f.Role == "misfit" || f.Role == "rewrite-error" {
				ref.DropFile(f.Path)
			}
		}
		if len(ref.Targets) == 0 || len(ref.Files) == 0 {
			ref = nil
		}
	case "missing-path":
		var t []string
		for _, x := range ref.Targets {
			if x != c.Extra["missing"] {
				t = append(t, x)
			}
		}
		ref.Targets = t
		if len(t) == 0 {
			ref = nil
		}
	default:
		ref = nil
	}
	orig := goFiles(init)
	got := goFiles(r.Final)
	if ref != nil {
		ref.RebuildArgs()
		rr := env.Run(ref.Spec)
		if rr.Outcome == OutExit {
			want := goFiles(rr.Final)
			aborts := kind == "missing-path" // enumeration failure aborts before any file is processed
			for p, w := range want {
				g, ok := got[p]
				if !ok {
					add("isolation", "missing", fmt.Sprintf("%s disappeared", p))
					continue
				}
				if bytes.Equal(g.Data, w.Data) {
					continue
				}
				if aborts && bytes.Equal(g.Data, orig[p].Data) {
					continue
				}
				add("isolation", "differs", fmt.Sprintf("with a %s in the run, %s ended as %q instead of %q", kind, p, clip(string(g.Data), 150), clip(string(w.Data), 150)))
			}
		}
	}
	// failing files themselves stay untouched
	for _, f := range c.Files {
		if f.Role == "unparseable" || f.Role == "misfit" || f.Role == "unreadable" || f.Role == "rewrite-error" {
			if g, ok := got[f.Path]; !ok || !bytes.Equal(g.Data, orig[f.Path].Data) {
				add("all-or-nothing", "failing-file-modified", fmt.Sprintf("%s file %s was modified", f.Role, f.Path))
			}
		}
	}
	if !env.Quiet {
		env.Stats.Sample(map[string]interface{}{"args": c.Spec.Args, "input_failure": kind, "exit": r.Exit, "stderr": clip(stderr, 200)}, 2)
	}
	return vs
}

// c16Extern: another process appends to a target after the walk has seen it and
// before it is read. The file must end up as what that process left (if gopatch
// fails) or as the complete patched form OF THAT CONTENT - never with the
// appended part lost. With an explicit plan in the case only that plan is run.
func c16Extern(env *Env, c *Case, base world.Spec, pilot *RunResult, seenSig map[string]bool) []Violation {
	var vs []Violation
	if !c.Flags.Diff && !c.Flags.Print && c.Extra["hardlink_target"] != "1" && c.Extra["hardlink_decoy"] != "1" {
		appended := []byte("\n// appended by another process while gopatch was running\nfunc appendedLater() {}\n")
		for _, f := range c.SortedFiles() {
			if f.Role != "match" || env.Expired() {
				continue
			}
			if len(c.Spec.Faults) > 0 && c.Spec.Faults[0].Path != f.Path {
				continue
			}
			k := -1
			for i, o := range pilot.Log {
				if o.Name == "open" && o.Path == f.Path && o.Flags&(world.O_WRONLY|world.O_RDWR) == 0 {
					k = i
					break
				}
			}
			now := append(append([]byte(nil), c.NodeData(f.Path)...), appended...)
			if k < 0 || ParsesAsGo(now) != nil {
				continue
			}
			refCase := c.Clone()
			for i := range refCase.Spec.Nodes {
				if refCase.Spec.Nodes[i].Path == f.Path && refCase.Spec.Nodes[i].Kind == "file" {
					refCase.Spec.Nodes[i].Data = now
				}
			}
			refCase.Spec.Faults = nil
			ref := RunCLI(env.Prog, refCase.Spec)
			spec := base.Clone()
			spec.Faults = []world.Fault{{AtOp: k, Kind: "extern", Path: f.Path, Data: appended}}
			r2 := env.Run(spec)
			if ref.Outcome != OutExit || r2.Outcome != OutExit || len(r2.Fired) == 0 {
				continue
			}
			env.Probe("target-grows-between-walk-and-read")
			want, got := FindState(ref.Final, f.Path), FindState(r2.Final, f.Path)
			if want == nil || got == nil {
				continue
			}
			isNow, isNew := bytes.Equal(got.Data, now), bytes.Equal(got.Data, want.Data)
			sig := ""
			switch {
			case !isNow && !isNew:
				sig = "lost-update"
			case !isNew && r2.Exit == 0 && ref.Exit == 0:
				sig = "exit-zero-but-unpatched"
			}
			if sig != "" && !seenSig["C16/changed-behind-the-back/"+sig] {
				seenSig["C16/changed-behind-the-back/"+sig] = true
				cc := c.Clone()
				cc.Spec.Faults = spec.Faults
				vs = append(vs, Violation{Oracle: "changed-behind-the-back", Signature: "C16/changed-behind-the-back/" + sig, Case: cc, Detail: fmt.Sprintf("%s grew by %d bytes after the walk and before gopatch read it; it ends as %d bytes that are neither that content (%d bytes) nor its complete patched form (%d bytes), exit %d: %q", f.Path, len(appended), len(got.Data), len(now), len(want.Data), r2.Exit, clip(string(got.Data), 200))})
			}
		}
	}
	return vs
}
