package main

import (
	"bytes"
	"fmt"
	"os"
	"os/exec"
	"path/filepath"
	"strings"
	"time"

	"verif.local/verif/internal/instr"
)

var (
	verifRoot = "/verif"
	repoRoot  = "/repo"
)

func goEnv() []string {
	env := os.Environ()
	set := func(k, v string) {
		for i, e := range env {
			if strings.HasPrefix(e, k+"=") {
				env[i] = k + "=" + v
				return
			}
		}
		env = append(env, k+"="+v)
	}
	set("GOFLAGS", "-mod=mod")
	set("GOPROXY", "off")
	set("GOSUMDB", "off")
	set("GOTOOLCHAIN", "local")
	set("GOWORK", "off")
	// the overlay also replaces one file in the module cache; the go command's
	// package index of the module cache would hide its changed imports
	set("GODEBUG", "goindex=0")
	return env
}

type buildInfo struct {
	Bin    string
	Sites  int
	Files  int
	Secs   float64
	Bypass []string
}

// build instruments /repo's current working tree and compiles the simulation
// binary. name separates concurrent builds for different properties.
func build(name string, race bool) (*buildInfo, error) {
	start := time.Now()
	bdir := filepath.Join(verifRoot, "build", name)
	if err := os.MkdirAll(bdir, 0o755); err != nil {
		return nil, err
	}
	extra := map[string]string{
		filepath.Join(repoRoot, "zz_verif_glue_test.go"): filepath.Join(verifRoot, "glue", "zz_verif_glue_test.go.txt"),
	}
	instr.Deps = depFiles()
	res, err := instr.Tree(repoRoot, bdir, extra)
	if err != nil {
		return nil, fmt.Errorf("instrument: %w", err)
	}
	gomod, err := os.ReadFile(filepath.Join(repoRoot, "go.mod"))
	if err != nil {
		return nil, err
	}
	gomod = append(gomod, []byte(fmt.Sprintf("\nrequire verif.local/sim v0.0.0\n\nreplace verif.local/sim => %s\n", filepath.Join(verifRoot, "sim")))...)
	if err := os.WriteFile(filepath.Join(bdir, "go.mod"), gomod, 0o644); err != nil {
		return nil, err
	}
	if sum, err := os.ReadFile(filepath.Join(repoRoot, "go.sum")); err == nil {
		os.WriteFile(filepath.Join(bdir, "go.sum"), sum, 0o644)
	}
	bin := filepath.Join(bdir, "sim.test")
	args := []string{"test", "-c", "-vet=off", "-overlay", filepath.Join(bdir, "overlay.json"), "-modfile", filepath.Join(bdir, "go.mod"), "-o", bin}
	if race {
		args = append(args, "-race")
	}
	args = append(args, ".")
	cmd := exec.Command("go", args...)
	cmd.Dir = repoRoot
	cmd.Env = goEnv()
	var out bytes.Buffer
	cmd.Stdout = &out
	cmd.Stderr = &out
	if err := cmd.Run(); err != nil {
		return nil, fmt.Errorf("go test -c failed: %v\n%s", err, out.String())
	}
	return &buildInfo{Bin: bin, Sites: len(res.Sites), Files: res.Files, Secs: time.Since(start).Seconds(), Bypass: res.Bypass}, nil
}

// depFiles locates the dependency sources that are instrumented along with
// gopatch: the import sorter of golang.org/x/tools, whose blank-line fix-up
// loops for ever on some inputs (finding F28).
func depFiles() []string {
	cmd := exec.Command("go", "list", "-m", "-f", "{{.Dir}}", "golang.org/x/tools")
	cmd.Dir = repoRoot
	cmd.Env = goEnv()
	out, err := cmd.Output()
	if err != nil {
		return nil
	}
	p := filepath.Join(strings.TrimSpace(string(out)), "internal", "imports", "sortimports.go")
	if _, err := os.Stat(p); err != nil {
		return nil
	}
	return []string{p}
}
