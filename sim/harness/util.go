package harness

import (
	"bytes"
	"crypto/sha256"
	"encoding/hex"
	"encoding/json"
	"fmt"
	"go/parser"
	"go/token"
	"os"
	"path/filepath"
	"sort"
	"strconv"
	"strings"

	"verif.local/sim/world"
)

// ---------------------------------------------------------------------------
// determinism hashing

type logHasher struct {
	h    [32]byte
	list []string
}

func newLogHasher() *logHasher { return &logHasher{} }

func (l *logHasher) note(i int, c *Case, vs []Violation) string {
	ch := sha256.New()
	fmt.Fprintf(ch, "case %d\n", i)
	ch.Write(caseHash)
	for _, v := range vs {
		fmt.Fprintf(ch, "V %s %s\n", v.Oracle, v.Signature)
	}
	one := ch.Sum(nil)
	hh := sha256.New()
	hh.Write(l.h[:])
	hh.Write(one)
	copy(l.h[:], hh.Sum(nil))
	caseHash = caseHash[:0]
	return hex.EncodeToString(one[:12])
}

func (l *logHasher) sum() string { return hex.EncodeToString(l.h[:]) }

// caseHash accumulates the observable events of the case being evaluated.
var caseHash []byte

// HashRun folds a run's observable events into the current case hash.
func HashRun(r *RunResult) {
	hh := sha256.New()
	hh.Write(caseHash)
	// The step count is deliberately not part of the event log: findFiles
	// sorts a map-ordered slice with an (instrumented) comparison closure,
	// so the number of yields of a CLI run varies by a few with Go's map
	// iteration order although every observable event is identical.
	fmt.Fprintf(hh, "%s %d\n", r.Outcome, r.Exit)
	hh.Write(r.Stdout)
	hh.Write([]byte{0})
	hh.Write(r.Stderr)
	hh.Write([]byte{0})
	for _, o := range r.Log {
		fmt.Fprintf(hh, "%d %s %s %s %d %d %d %s %v %s %v\n", o.Seq, o.Name, o.Path, o.Path2, o.Ino, o.Flags, o.N, o.Err, o.Mut, o.Fault, o.Post)
	}
	for _, f := range r.Final {
		fmt.Fprintf(hh, "%s %d %o %d %d %x\n", f.Path, f.Kind, f.Perm, f.Ino, f.Mtime, sha256.Sum256(f.Data))
	}
	caseHash = hh.Sum(nil)
}

// HashBytes folds arbitrary observations into the current case hash.
func HashBytes(b ...[]byte) {
	hh := sha256.New()
	hh.Write(caseHash)
	for _, x := range b {
		hh.Write(x)
		hh.Write([]byte{0})
	}
	caseHash = hh.Sum(nil)
}

// ---------------------------------------------------------------------------
// Go parsing oracle

// ParsesAsGo reports whether src is a syntactically valid Go file.
func ParsesAsGo(src []byte) error {
	fset := token.NewFileSet()
	_, err := parser.ParseFile(fset, "x.go", src, parser.AllErrors|parser.ParseComments)
	return err
}

// ---------------------------------------------------------------------------
// strict unified-diff applier for the format pkg/diff's write.Unified emits

// DiffFile is one file section of a unified diff.
type DiffFile struct {
	Old, New string
	Hunks    []DiffHunk
}

type DiffHunk struct {
	OldStart, OldLen, NewStart, NewLen int
	Lines                              []string // with leading ' ', '-', '+'
	NoEOL                              []bool   // Lines[i] is followed by "\ No newline at end of file"
}

// ParseUnified parses a multi-file unified diff.
func ParseUnified(text string) ([]DiffFile, error) {
	var files []DiffFile
	lines := strings.Split(text, "\n")
	if len(lines) > 0 && lines[len(lines)-1] == "" {
		lines = lines[:len(lines)-1]
	}
	i := 0
	for i < len(lines) {
		l := lines[i]
		if !strings.HasPrefix(l, "--- ") {
			return nil, fmt.Errorf("line %d: expected '--- ' header, got %q", i+1, l)
		}
		if i+1 >= len(lines) || !strings.HasPrefix(lines[i+1], "+++ ") {
			return nil, fmt.Errorf("line %d: expected '+++ ' header", i+2)
		}
		df := DiffFile{Old: strings.TrimPrefix(l, "--- "), New: strings.TrimPrefix(lines[i+1], "+++ ")}
		i += 2
		for i < len(lines) && strings.HasPrefix(lines[i], "@@ ") {
			h, err := parseHunkHeader(lines[i])
			if err != nil {
				return nil, fmt.Errorf("line %d: %v", i+1, err)
			}
			i++
			no, nn := 0, 0
			for i < len(lines) && (no < h.OldLen || nn < h.NewLen) {
				hl := lines[i]
				if hl == "" {
					return nil, fmt.Errorf("line %d: empty line inside hunk", i+1)
				}
				switch hl[0] {
				case ' ':
					no++
					nn++
				case '-':
					no++
				case '+':
					nn++
				default:
					return nil, fmt.Errorf("line %d: bad hunk line %q", i+1, hl)
				}
				h.Lines = append(h.Lines, hl)
				h.NoEOL = append(h.NoEOL, false)
				i++
				if i < len(lines) && strings.HasPrefix(lines[i], "\\") {
					// "\ No newline at end of file" belongs to the line before it
					h.NoEOL[len(h.NoEOL)-1] = true
					i++
				}
			}
			if no != h.OldLen || nn != h.NewLen {
				return nil, fmt.Errorf("hunk at line %d: length mismatch", i)
			}
			df.Hunks = append(df.Hunks, h)
		}
		files = append(files, df)
	}
	return files, nil
}

func parseHunkHeader(l string) (DiffHunk, error) {
	// @@ -a,b +c,d @@
	var h DiffHunk
	parts := strings.Fields(l)
	if len(parts) < 4 || parts[0] != "@@" || parts[3] != "@@" {
		return h, fmt.Errorf("bad hunk header %q", l)
	}
	rng := func(s string, pfx byte) (int, int, error) {
		if len(s) < 2 || s[0] != pfx {
			return 0, 0, fmt.Errorf("bad range %q", s)
		}
		s = s[1:]
		a, b := s, "1"
		if i := strings.IndexByte(s, ','); i >= 0 {
			a, b = s[:i], s[i+1:]
		}
		x, err1 := strconv.Atoi(a)
		y, err2 := strconv.Atoi(b)
		if err1 != nil || err2 != nil {
			return 0, 0, fmt.Errorf("bad range %q", s)
		}
		return x, y, nil
	}
	var err error
	if h.OldStart, h.OldLen, err = rng(parts[1], '-'); err != nil {
		return h, err
	}
	if h.NewStart, h.NewLen, err = rng(parts[2], '+'); err != nil {
		return h, err
	}
	return h, nil
}

// ApplyUnified applies one file's hunks to orig with the semantics of patch(1):
// a hunk line stands for its text followed by a newline, unless it is followed
// by "\ No newline at end of file"; context and removed lines must match the
// original byte for byte (carriage returns included).
func ApplyUnified(orig string, df DiffFile) (string, error) {
	var ol []string // lines of orig WITH their terminators
	for rest := orig; len(rest) > 0; {
		i := strings.IndexByte(rest, '\n')
		if i < 0 {
			ol = append(ol, rest)
			break
		}
		ol = append(ol, rest[:i+1])
		rest = rest[i+1:]
	}
	// Hunks address lines of the ORIGINAL file. pkg/diff prints a change without
	// any common line as a pure deletion followed by a pure insertion "at line 0",
	// so hunks are ordered here by the original position they touch.
	hunks := append([]DiffHunk(nil), df.Hunks...)
	startOf := func(h DiffHunk) int {
		if h.OldLen == 0 {
			return h.OldStart
		}
		return h.OldStart - 1
	}
	sort.SliceStable(hunks, func(i, j int) bool {
		si, sj := startOf(hunks[i]), startOf(hunks[j])
		if si != sj {
			return si < sj
		}
		return hunks[i].OldLen == 0 && hunks[j].OldLen != 0
	})
	var out []string
	pos := 0 // index into ol
	for _, h := range hunks {
		start := startOf(h)
		if start < pos || start > len(ol) {
			return "", fmt.Errorf("hunk -%d,%d out of order or range", h.OldStart, h.OldLen)
		}
		out = append(out, ol[pos:start]...)
		pos = start
		for k, hl := range h.Lines {
			text := hl[1:] + "\n"
			if k < len(h.NoEOL) && h.NoEOL[k] {
				text = hl[1:]
			}
			switch hl[0] {
			case ' ':
				if pos >= len(ol) || ol[pos] != text {
					return "", fmt.Errorf("context mismatch at old line %d: diff has %q", pos+1, text)
				}
				out = append(out, text)
				pos++
			case '-':
				if pos >= len(ol) || ol[pos] != text {
					return "", fmt.Errorf("removed line mismatch at old line %d: diff has %q", pos+1, text)
				}
				pos++
			case '+':
				out = append(out, text)
			}
		}
	}
	out = append(out, ol[pos:]...)
	return strings.Join(out, ""), nil
}

// ---------------------------------------------------------------------------
// corpus from the working tree (read with the REAL os package)

// CorpusCase is one txtar case of /repo/testdata.
type CorpusCase struct {
	Name    string
	Patches []CorpusFile // *.patch
	Inputs  []CorpusFile // foo.in.go, named foo.go
	Outputs map[string][]byte
}

type CorpusFile struct {
	Name string
	Data []byte
}

var corpusCache []CorpusCase

func repoDir() string {
	if d := os.Getenv("VERIF_REPO"); d != "" {
		return d
	}
	return "/repo"
}

// Corpus loads the txtar cases under testdata.
func Corpus() []CorpusCase {
	if corpusCache != nil {
		return corpusCache
	}
	dir := filepath.Join(repoDir(), "testdata")
	ents, err := os.ReadDir(dir)
	if err != nil {
		return nil
	}
	var out []CorpusCase
	for _, e := range ents {
		if e.IsDir() || e.Name() == "README.md" {
			continue
		}
		b, err := os.ReadFile(filepath.Join(dir, e.Name()))
		if err != nil {
			continue
		}
		cc := CorpusCase{Name: e.Name(), Outputs: map[string][]byte{}}
		for _, f := range parseTxtar(b) {
			switch {
			case strings.HasSuffix(f.Name, ".patch"):
				// "=> path" links are resolved relative to the repo root
				if bytes.HasPrefix(f.Data, []byte("=>")) {
					first := strings.SplitN(string(f.Data), "\n", 2)[0]
					p := strings.TrimSpace(strings.TrimPrefix(first, "=>"))
					if d, err := os.ReadFile(filepath.Join(repoDir(), p)); err == nil {
						f.Data = d
					} else {
						continue
					}
				}
				cc.Patches = append(cc.Patches, f)
			case strings.HasSuffix(f.Name, ".in.go"):
				if ParsesAsGo(f.Data) != nil {
					// a few corpus inputs of skipped upstream tests are not valid Go
					continue
				}
				cc.Inputs = append(cc.Inputs, CorpusFile{Name: strings.TrimSuffix(f.Name, ".in.go") + ".go", Data: singleTrailingNewline(f.Data)})
			case strings.HasSuffix(f.Name, ".out.go"):
				cc.Outputs[strings.TrimSuffix(f.Name, ".out.go")+".go"] = singleTrailingNewline(f.Data)
			}
		}
		if len(cc.Patches) > 0 && len(cc.Inputs) > 0 {
			out = append(out, cc)
		}
	}
	sort.Slice(out, func(i, j int) bool { return out[i].Name < out[j].Name })
	corpusCache = out
	return out
}

// ExtraPatches returns the example patches shipped with the repository.
func ExtraPatches() []CorpusFile {
	var out []CorpusFile
	for _, g := range []string{"examples/*.patch", "testdata/patch/*.patch"} {
		ms, _ := filepath.Glob(filepath.Join(repoDir(), g))
		sort.Strings(ms)
		for _, m := range ms {
			if b, err := os.ReadFile(m); err == nil {
				out = append(out, CorpusFile{Name: filepath.Base(m), Data: b})
			}
		}
	}
	return out
}

func singleTrailingNewline(bs []byte) []byte {
	i := len(bs) - 1
	for i > 0 && bs[i] == '\n' && bs[i-1] == '\n' {
		i--
	}
	return bs[:i+1]
}

func parseTxtar(data []byte) []CorpusFile {
	var files []CorpusFile
	var cur *CorpusFile
	for _, line := range bytes.SplitAfter(data, []byte("\n")) {
		t := bytes.TrimRight(line, "\r\n")
		if bytes.HasPrefix(t, []byte("-- ")) && bytes.HasSuffix(t, []byte(" --")) && len(t) >= 7 {
			name := strings.TrimSpace(string(t[3 : len(t)-3]))
			files = append(files, CorpusFile{Name: name})
			cur = &files[len(files)-1]
			continue
		}
		if cur != nil {
			cur.Data = append(cur.Data, line...)
		}
	}
	return files
}

// ---------------------------------------------------------------------------
// small helpers

func jsonStr(v interface{}) string {
	b, _ := json.Marshal(v)
	return string(b)
}

func clip(s string, n int) string {
	if len(s) > n {
		return s[:n] + "…"
	}
	return s
}

// FindState returns the snapshot entry for a path.
func FindState(snap []world.FileState, path string) *world.FileState {
	for i := range snap {
		if snap[i].Path == path {
			return &snap[i]
		}
	}
	return nil
}

// MutOps returns the ops that changed (or would have changed) the filesystem.
func MutOps(log []world.Op) []world.Op {
	var out []world.Op
	for _, o := range log {
		if o.Mut && !o.Post {
			out = append(out, o)
		}
	}
	return out
}

// SnapEqual compares two snapshots completely (shape, inode numbers, bytes,
// modes, mtimes). It returns "" if equal, else a description of the first
// difference.
func SnapEqual(a, b []world.FileState) string {
	am := map[string]world.FileState{}
	for _, x := range a {
		am[x.Path] = x
	}
	bm := map[string]world.FileState{}
	for _, x := range b {
		bm[x.Path] = x
	}
	var paths []string
	for p := range am {
		paths = append(paths, p)
	}
	for p := range bm {
		if _, ok := am[p]; !ok {
			paths = append(paths, p)
		}
	}
	sort.Strings(paths)
	for _, p := range paths {
		x, okx := am[p]
		y, oky := bm[p]
		switch {
		case !okx:
			return "created " + p
		case !oky:
			return "removed " + p
		case x.Kind != y.Kind:
			return "kind changed " + p
		case x.Ino != y.Ino:
			return "inode replaced " + p
		case !bytes.Equal(x.Data, y.Data):
			return "bytes changed " + p
		case x.Perm != y.Perm:
			return "mode changed " + p
		case x.Target != y.Target:
			return "symlink target changed " + p
		case x.Mtime != y.Mtime:
			return "mtime changed " + p
		}
	}
	return ""
}
