#!/usr/bin/env python3
"""Copies a confirmed seeded change into /verif/seeded/<prop>-<name>/ with a meta.json that records what was run."""
import json, os, shutil, sys, subprocess
prop, m, wave, detected_by = sys.argv[1], sys.argv[2], sys.argv[3], sys.argv[4]
src = f"/tmp/mut/{prop}-out/{m}" if wave == "w1" else f"/tmp/mut/{prop}-{wave}-out/{m}"
dst = f"/verif/seeded/{prop}-{wave}-{m}"
os.makedirs(dst, exist_ok=True)
for f in os.listdir(src):
    if f.startswith("observed") or f in ("with_patch.txt", "clean.txt"):
        continue
    if os.path.isfile(os.path.join(src, f)):
        shutil.copy(os.path.join(src, f), os.path.join(dst, f))
meta = {}
mp = os.path.join(src, "meta.json")
if os.path.exists(mp):
    try:
        meta = json.load(open(mp))
    except Exception:
        meta = {"note": "agent meta.json unreadable"}
out = {
    "property": prop,
    "breaks": meta.get("summary", ""),
    "needs_to_manifest": meta.get("needs", ""),
    "origin": f"independent sub-agent, wave {wave}; given only the property text and a scratch worktree",
    "confirmed": {
        "how": "tools_confirm.sh in the scratch worktree: patch applies to the clean tree, go build ./... ok, full existing test suite passes with it, demo.sh exits 0 on the clean tree and 1 with the patch",
        "demo": "demo.sh <tree>" + (" (uses demo_test.go)" if os.path.exists(os.path.join(src, "demo_test.go")) else ""),
    },
    "checks_run": f"tools_run_mutant.sh patch.diff {prop} (git -C /repo apply; ./check {prop} quick; git -C /repo checkout -- .)",
    "detected_by": detected_by.split(","),
}
json.dump(out, open(os.path.join(dst, "meta.json"), "w"), indent=1)
print("recorded", dst)
