// Package os (import path verif.local/sim/simos) is the simulator's stand-in
// for the standard library's os package. The instrumented copy of gopatch is
// compiled with every `import "os"` redirected here, so each operation goes to
// the current World: it is logged, it can be failed, cut short or turned into
// a process kill by the fault plan, and it never touches the real filesystem.
//
// The surface is intentionally much wider than what gopatch uses today, so that
// a changed gopatch (temp file + rename, OpenFile, Stat, ReadDir, ...) still
// builds and is still fully intercepted.
package os

import (
	"errors"
	"io"
	"io/fs"
	"sort"
	"strings"
	"syscall"
	"time"

	"verif.local/sim/world"
)

// ---------------------------------------------------------------------------
// current world

var cur *world.World

// SetWorld installs the world for the next run and rebinds the standard
// streams and Args. Called by the harness only.
func SetWorld(w *world.World) {
	cur = w
	if w == nil {
		Stdin, Stdout, Stderr = nil, nil, nil
		Args = nil
		return
	}
	Stdin = &File{h: w.StreamHandle(1)}
	Stdout = &File{h: w.StreamHandle(2)}
	Stderr = &File{h: w.StreamHandle(3)}
	Args = append([]string{"gopatch"}, w.Args...)
}

// CurrentWorld returns the installed world.
func CurrentWorld() *world.World { return cur }

// ---------------------------------------------------------------------------
// types, constants, errors (aliases of the real ones wherever the real os
// package itself only aliases io/fs or syscall)

type (
	FileInfo  = fs.FileInfo
	FileMode  = fs.FileMode
	DirEntry  = fs.DirEntry
	PathError = fs.PathError
	Signal    interface {
		String() string
		Signal()
	}
)

// LinkError records an error during a link or symlink or rename.
type LinkError struct {
	Op  string
	Old string
	New string
	Err error
}

func (e *LinkError) Error() string {
	return e.Op + " " + e.Old + " " + e.New + ": " + e.Err.Error()
}
func (e *LinkError) Unwrap() error { return e.Err }

// SyscallError records an error from a specific system call.
type SyscallError struct {
	Syscall string
	Err     error
}

func (e *SyscallError) Error() string { return e.Syscall + ": " + e.Err.Error() }
func (e *SyscallError) Unwrap() error { return e.Err }

// NewSyscallError mirrors os.NewSyscallError.
func NewSyscallError(syscall string, err error) error {
	if err == nil {
		return nil
	}
	return &SyscallError{syscall, err}
}

const (
	O_RDONLY = syscall.O_RDONLY
	O_WRONLY = syscall.O_WRONLY
	O_RDWR   = syscall.O_RDWR
	O_APPEND = syscall.O_APPEND
	O_CREATE = syscall.O_CREAT
	O_EXCL   = syscall.O_EXCL
	O_SYNC   = syscall.O_SYNC
	O_TRUNC  = syscall.O_TRUNC

	SEEK_SET = 0
	SEEK_CUR = 1
	SEEK_END = 2

	PathSeparator     = '/'
	PathListSeparator = ':'
	DevNull           = "/dev/null"

	ModeDir        = fs.ModeDir
	ModeAppend     = fs.ModeAppend
	ModeExclusive  = fs.ModeExclusive
	ModeTemporary  = fs.ModeTemporary
	ModeSymlink    = fs.ModeSymlink
	ModeDevice     = fs.ModeDevice
	ModeNamedPipe  = fs.ModeNamedPipe
	ModeSocket     = fs.ModeSocket
	ModeSetuid     = fs.ModeSetuid
	ModeSetgid     = fs.ModeSetgid
	ModeCharDevice = fs.ModeCharDevice
	ModeSticky     = fs.ModeSticky
	ModeIrregular  = fs.ModeIrregular
	ModeType       = fs.ModeType
	ModePerm       = fs.ModePerm
)

var (
	ErrInvalid          = fs.ErrInvalid
	ErrPermission       = fs.ErrPermission
	ErrExist            = fs.ErrExist
	ErrNotExist         = fs.ErrNotExist
	ErrClosed           = fs.ErrClosed
	ErrNoDeadline       = errors.New("file type does not support deadline")
	ErrDeadlineExceeded = errors.New("i/o timeout")
	ErrProcessDone      = errors.New("os: process already finished")

	Interrupt Signal = syscall.SIGINT
	Kill      Signal = syscall.SIGKILL
)

var (
	Args   []string
	Stdin  *File
	Stdout *File
	Stderr *File
)

func underlying(err error) error {
	switch e := err.(type) {
	case *PathError:
		return e.Err
	case *LinkError:
		return e.Err
	case *SyscallError:
		return e.Err
	}
	return err
}

func IsExist(err error) bool {
	e := underlying(err)
	return e == syscall.EEXIST || e == syscall.ENOTEMPTY || e == ErrExist
}
func IsNotExist(err error) bool {
	e := underlying(err)
	return e == syscall.ENOENT || e == ErrNotExist
}
func IsPermission(err error) bool {
	e := underlying(err)
	return e == syscall.EACCES || e == syscall.EPERM || e == ErrPermission
}
func IsTimeout(err error) bool {
	t, ok := underlying(err).(interface{ Timeout() bool })
	return ok && t.Timeout()
}
func IsPathSeparator(c uint8) bool { return c == '/' }

func pe(op, path string, e syscall.Errno) error {
	return &PathError{Op: op, Path: path, Err: e}
}

// ---------------------------------------------------------------------------
// process

func Exit(code int) { cur.DoExit(code) }

func Getwd() (string, error) {
	d, e := cur.Getwd()
	if e != 0 {
		return "", NewSyscallError("getwd", e)
	}
	return d, nil
}

func Chdir(dir string) error {
	if e := cur.Chdir(dir); e != 0 {
		return pe("chdir", dir, e)
	}
	return nil
}

func Getenv(k string) string { return cur.Env[k] }
func LookupEnv(k string) (string, bool) {
	v, ok := cur.Env[k]
	return v, ok
}
func Setenv(k, v string) error { cur.Env[k] = v; return nil }
func Unsetenv(k string) error  { delete(cur.Env, k); return nil }
func Clearenv()                { cur.Env = map[string]string{} }
func Environ() []string {
	var out []string
	for k, v := range cur.Env {
		out = append(out, k+"="+v)
	}
	sort.Strings(out)
	return out
}
func ExpandEnv(s string) string { return Expand(s, Getenv) }
func Expand(s string, mapping func(string) string) string {
	var b strings.Builder
	for i := 0; i < len(s); i++ {
		if s[i] == '$' && i+1 < len(s) {
			j := i + 1
			if s[j] == '{' {
				k := strings.IndexByte(s[j:], '}')
				if k > 0 {
					b.WriteString(mapping(s[j+1 : j+k]))
					i = j + k
					continue
				}
			}
			k := j
			for k < len(s) && (s[k] == '_' || s[k] >= '0' && s[k] <= '9' || s[k] >= 'a' && s[k] <= 'z' || s[k] >= 'A' && s[k] <= 'Z') {
				k++
			}
			if k > j {
				b.WriteString(mapping(s[j:k]))
				i = k - 1
				continue
			}
		}
		b.WriteByte(s[i])
	}
	return b.String()
}

func Getpid() int                    { return 4242 }
func Getppid() int                   { return 1 }
func Getuid() int                    { return 1000 }
func Geteuid() int                   { return 1000 }
func Getgid() int                    { return 1000 }
func Getegid() int                   { return 1000 }
func Getpagesize() int               { return 4096 }
func Hostname() (string, error)      { return "simhost", nil }
func Executable() (string, error)    { return "/sim/bin/gopatch", nil }
func TempDir() string                { return "/tmp" }
func UserHomeDir() (string, error)   { return "/home/sim", nil }
func UserCacheDir() (string, error)  { return "/home/sim/.cache", nil }
func UserConfigDir() (string, error) { return "/home/sim/.config", nil }
func Getgroups() ([]int, error)      { return []int{1000}, nil }

// ---------------------------------------------------------------------------
// File

// File is the simulated *os.File.
type File struct {
	h *world.Handle
}

func errOrNil(op, name string, e syscall.Errno) error {
	if e == 0 {
		return nil
	}
	return pe(op, name, e)
}

func OpenFile(name string, flag int, perm FileMode) (*File, error) {
	h, e := cur.OpenFile(name, flag, perm)
	if e != 0 {
		return nil, pe("open", name, e)
	}
	return &File{h: h}, nil
}

func Open(name string) (*File, error)   { return OpenFile(name, O_RDONLY, 0) }
func Create(name string) (*File, error) { return OpenFile(name, O_RDWR|O_CREATE|O_TRUNC, 0o666) }

func NewFile(fd uintptr, name string) *File {
	switch fd {
	case 0:
		return Stdin
	case 1:
		return Stdout
	case 2:
		return Stderr
	}
	return nil
}

func (f *File) Name() string { return f.h.Name }

func (f *File) Fd() uintptr {
	switch f {
	case Stdin:
		return 0
	case Stdout:
		return 1
	case Stderr:
		return 2
	}
	return 99
}

func (f *File) Read(b []byte) (int, error) {
	if f == nil {
		return 0, ErrInvalid
	}
	n, eof, e := f.h.Read(b)
	if e != 0 {
		return n, pe("read", f.h.Name, e)
	}
	if eof && n == 0 && len(b) > 0 {
		return 0, io.EOF
	}
	return n, nil
}

func (f *File) ReadAt(b []byte, off int64) (int, error) {
	if f == nil {
		return 0, ErrInvalid
	}
	if _, e := f.h.Seek(off, io.SeekStart); e != 0 {
		return 0, pe("read", f.h.Name, e)
	}
	total := 0
	for total < len(b) {
		n, err := f.Read(b[total:])
		total += n
		if err != nil {
			return total, err
		}
	}
	return total, nil
}

func (f *File) ReadFrom(r io.Reader) (int64, error) {
	buf := make([]byte, 32*1024)
	var total int64
	for {
		n, err := r.Read(buf)
		if n > 0 {
			m, werr := f.Write(buf[:n])
			total += int64(m)
			if werr != nil {
				return total, werr
			}
		}
		if err == io.EOF {
			return total, nil
		}
		if err != nil {
			return total, err
		}
	}
}

func (f *File) Write(b []byte) (int, error) {
	if f == nil {
		return 0, ErrInvalid
	}
	n, e := f.h.Write(b)
	if e != 0 {
		return n, pe("write", f.h.Name, e)
	}
	if n != len(b) {
		return n, io.ErrShortWrite
	}
	return n, nil
}

func (f *File) WriteString(s string) (int, error) { return f.Write([]byte(s)) }

func (f *File) WriteAt(b []byte, off int64) (int, error) {
	if f == nil {
		return 0, ErrInvalid
	}
	if _, e := f.h.Seek(off, io.SeekStart); e != 0 {
		return 0, pe("write", f.h.Name, e)
	}
	return f.Write(b)
}

func (f *File) Seek(offset int64, whence int) (int64, error) {
	if f == nil {
		return 0, ErrInvalid
	}
	p, e := f.h.Seek(offset, whence)
	if e != 0 {
		return 0, pe("seek", f.h.Name, e)
	}
	return p, nil
}

func (f *File) Close() error {
	if f == nil {
		return ErrInvalid
	}
	if e := f.h.Close(); e != 0 {
		if e == syscall.EBADF {
			return &PathError{Op: "close", Path: f.h.Name, Err: ErrClosed}
		}
		return pe("close", f.h.Name, e)
	}
	return nil
}

func (f *File) Sync() error {
	if f == nil {
		return ErrInvalid
	}
	return errOrNil("sync", f.h.Name, f.h.Sync())
}

func (f *File) Stat() (FileInfo, error) {
	if f == nil {
		return nil, ErrInvalid
	}
	st, e := f.h.Stat()
	if e != 0 {
		return nil, pe("stat", f.h.Name, e)
	}
	return st, nil
}

func (f *File) Truncate(size int64) error {
	if f == nil {
		return ErrInvalid
	}
	return errOrNil("truncate", f.h.Name, f.h.Truncate(size))
}

func (f *File) Chmod(mode FileMode) error {
	if f == nil {
		return ErrInvalid
	}
	return errOrNil("chmod", f.h.Name, f.h.Chmod(mode))
}

func (f *File) Chown(uid, gid int) error { return nil }
func (f *File) Chdir() error {
	return Chdir(f.h.Abs())
}

func (f *File) SetDeadline(t time.Time) error      { return ErrNoDeadline }
func (f *File) SetReadDeadline(t time.Time) error  { return ErrNoDeadline }
func (f *File) SetWriteDeadline(t time.Time) error { return ErrNoDeadline }

type dirEntry struct{ st *world.FileStat }

func (d dirEntry) Name() string            { return d.st.Name() }
func (d dirEntry) IsDir() bool             { return d.st.IsDir() }
func (d dirEntry) Type() FileMode          { return d.st.Mode().Type() }
func (d dirEntry) Info() (FileInfo, error) { return d.st, nil }
func (d dirEntry) String() string          { return fs.FormatDirEntry(d) }

func (f *File) readdir(n int) ([]world.DirEntryInfo, error) {
	ents, atEOF, e := f.h.ReadDirNames(n)
	if e != 0 {
		return nil, pe("readdirent", f.h.Name, e)
	}
	if n > 0 && len(ents) == 0 && atEOF {
		return nil, io.EOF
	}
	return ents, nil
}

func (f *File) Readdirnames(n int) ([]string, error) {
	if f == nil {
		return nil, ErrInvalid
	}
	ents, err := f.readdir(n)
	names := make([]string, 0, len(ents))
	for _, e := range ents {
		names = append(names, e.Name)
	}
	return names, err
}

func (f *File) Readdir(n int) ([]FileInfo, error) {
	if f == nil {
		return nil, ErrInvalid
	}
	ents, err := f.readdir(n)
	out := make([]FileInfo, 0, len(ents))
	for _, e := range ents {
		out = append(out, world.StatEntry(e))
	}
	return out, err
}

func (f *File) ReadDir(n int) ([]DirEntry, error) {
	if f == nil {
		return nil, ErrInvalid
	}
	ents, err := f.readdir(n)
	out := make([]DirEntry, 0, len(ents))
	for _, e := range ents {
		out = append(out, dirEntry{world.StatEntry(e)})
	}
	return out, err
}

// ---------------------------------------------------------------------------
// whole-file helpers: built from the primitive operations exactly like the
// real package builds them from system calls, so every step is a fault point.

func ReadFile(name string) ([]byte, error) {
	f, err := Open(name)
	if err != nil {
		return nil, err
	}
	defer f.Close()
	var size int
	if info, err := f.Stat(); err == nil {
		if s := info.Size(); s < 1<<30 {
			size = int(s)
		}
	}
	size++
	if size < 512 {
		size = 512
	}
	data := make([]byte, 0, size)
	for {
		n, err := f.Read(data[len(data):cap(data)])
		data = data[:len(data)+n]
		if err != nil {
			if err == io.EOF {
				err = nil
			}
			return data, err
		}
		if len(data) >= cap(data) {
			d := append(data[:cap(data)], 0)
			data = d[:len(data)]
		}
	}
}

func WriteFile(name string, data []byte, perm FileMode) error {
	f, err := OpenFile(name, O_WRONLY|O_CREATE|O_TRUNC, perm)
	if err != nil {
		return err
	}
	_, err = f.Write(data)
	if err1 := f.Close(); err1 != nil && err == nil {
		err = err1
	}
	return err
}

func ReadDir(name string) ([]DirEntry, error) {
	f, err := Open(name)
	if err != nil {
		return nil, err
	}
	defer f.Close()
	ents, err := f.ReadDir(-1)
	sort.Slice(ents, func(i, j int) bool { return ents[i].Name() < ents[j].Name() })
	return ents, err
}

// ---------------------------------------------------------------------------
// path operations

func Stat(name string) (FileInfo, error) {
	st, e := cur.Stat(name, true)
	if e != 0 {
		return nil, pe("stat", name, e)
	}
	return st, nil
}

func Lstat(name string) (FileInfo, error) {
	st, e := cur.Stat(name, false)
	if e != 0 {
		return nil, pe("lstat", name, e)
	}
	return st, nil
}

func SameFile(fi1, fi2 FileInfo) bool {
	a, ok1 := fi1.(*world.FileStat)
	b, ok2 := fi2.(*world.FileStat)
	return ok1 && ok2 && a.Ino == b.Ino
}

func Mkdir(name string, perm FileMode) error { return errOrNil("mkdir", name, cur.Mkdir(name, perm)) }

func MkdirAll(path string, perm FileMode) error {
	if st, err := Stat(path); err == nil {
		if st.IsDir() {
			return nil
		}
		return pe("mkdir", path, syscall.ENOTDIR)
	}
	i := len(path)
	for i > 0 && path[i-1] == '/' {
		i--
	}
	j := i
	for j > 0 && path[j-1] != '/' {
		j--
	}
	if j > 1 {
		if err := MkdirAll(path[:j-1], perm); err != nil {
			return err
		}
	}
	err := Mkdir(path, perm)
	if err != nil {
		if st, err1 := Lstat(path); err1 == nil && st.IsDir() {
			return nil
		}
		return err
	}
	return nil
}

func Remove(name string) error { return errOrNil("remove", name, cur.Remove(name)) }

func RemoveAll(path string) error {
	if path == "" {
		return nil
	}
	st, err := Lstat(path)
	if err != nil {
		if IsNotExist(err) {
			return nil
		}
		return err
	}
	if st.IsDir() {
		ents, err := ReadDir(path)
		if err != nil {
			return err
		}
		for _, e := range ents {
			if err := RemoveAll(strings.TrimRight(path, "/") + "/" + e.Name()); err != nil {
				return err
			}
		}
	}
	err = Remove(path)
	if err != nil && IsNotExist(err) {
		return nil
	}
	return err
}

func Rename(oldpath, newpath string) error {
	// like the real package on Unix: refuse to rename onto a directory
	if fi, err := Lstat(newpath); err == nil && fi.IsDir() {
		if ofi, err := Lstat(oldpath); err != nil {
			if pe, ok := err.(*PathError); ok {
				err = pe.Err
			}
			return &LinkError{"rename", oldpath, newpath, err}
		} else if newpath == oldpath || !SameFile(fi, ofi) {
			return &LinkError{"rename", oldpath, newpath, syscall.EEXIST}
		}
	}
	if e := cur.Rename(oldpath, newpath); e != 0 {
		return &LinkError{"rename", oldpath, newpath, e}
	}
	return nil
}

func Symlink(oldname, newname string) error {
	if e := cur.Symlink(oldname, newname); e != 0 {
		return &LinkError{"symlink", oldname, newname, e}
	}
	return nil
}

func Link(oldname, newname string) error {
	if e := cur.Link(oldname, newname); e != 0 {
		return &LinkError{"link", oldname, newname, e}
	}
	return nil
}

func Readlink(name string) (string, error) {
	t, e := cur.Readlink(name)
	if e != 0 {
		return "", pe("readlink", name, e)
	}
	return t, nil
}

func Chmod(name string, mode FileMode) error { return errOrNil("chmod", name, cur.Chmod(name, mode)) }
func Chown(name string, uid, gid int) error  { return nil }
func Lchown(name string, uid, gid int) error { return nil }
func Chtimes(name string, atime, mtime time.Time) error {
	return errOrNil("chtimes", name, cur.Chtimes(name, mtime))
}
func Truncate(name string, size int64) error {
	return errOrNil("truncate", name, cur.Truncate(name, size))
}

func nextRandom() string { return cur.RandName() }

func prefixAndSuffix(pattern string) (prefix, suffix string, err error) {
	for i := 0; i < len(pattern); i++ {
		if pattern[i] == '/' {
			return "", "", errors.New("pattern contains path separator")
		}
	}
	prefix = pattern
	if pos := strings.LastIndexByte(pattern, '*'); pos != -1 {
		prefix, suffix = pattern[:pos], pattern[pos+1:]
	}
	return prefix, suffix, nil
}

func CreateTemp(dir, pattern string) (*File, error) {
	if dir == "" {
		dir = TempDir()
	}
	prefix, suffix, err := prefixAndSuffix(pattern)
	if err != nil {
		return nil, &PathError{Op: "createtemp", Path: pattern, Err: err}
	}
	if !strings.HasSuffix(dir, "/") {
		dir += "/"
	}
	prefix = dir + prefix
	try := 0
	for {
		name := prefix + nextRandom() + suffix
		f, err := OpenFile(name, O_RDWR|O_CREATE|O_EXCL, 0o600)
		if IsExist(err) {
			if try++; try < 10000 {
				continue
			}
			return nil, &PathError{Op: "createtemp", Path: prefix + "*" + suffix, Err: ErrExist}
		}
		return f, err
	}
}

func MkdirTemp(dir, pattern string) (string, error) {
	if dir == "" {
		dir = TempDir()
	}
	prefix, suffix, err := prefixAndSuffix(pattern)
	if err != nil {
		return "", &PathError{Op: "mkdirtemp", Path: pattern, Err: err}
	}
	if !strings.HasSuffix(dir, "/") {
		dir += "/"
	}
	prefix = dir + prefix
	try := 0
	for {
		name := prefix + nextRandom() + suffix
		err := Mkdir(name, 0o700)
		if err == nil {
			return name, nil
		}
		if IsExist(err) {
			if try++; try < 10000 {
				continue
			}
			return "", &PathError{Op: "mkdirtemp", Path: dir + "*" + suffix, Err: ErrExist}
		}
		return "", err
	}
}

// DirFS returns a file system for the simulated tree rooted at dir.
func DirFS(dir string) fs.FS { return dirFS(dir) }

type dirFS string

type fsFile struct{ *File }

func (f fsFile) Stat() (fs.FileInfo, error) { return f.File.Stat() }

func (d dirFS) Open(name string) (fs.File, error) {
	if !fs.ValidPath(name) {
		return nil, &PathError{Op: "open", Path: name, Err: ErrInvalid}
	}
	f, err := Open(string(d) + "/" + name)
	if err != nil {
		return nil, err
	}
	return fsFile{f}, nil
}

func (d dirFS) ReadFile(name string) ([]byte, error) { return ReadFile(string(d) + "/" + name) }
func (d dirFS) ReadDir(name string) ([]DirEntry, error) {
	return ReadDir(string(d) + "/" + name)
}
func (d dirFS) Stat(name string) (fs.FileInfo, error) { return Stat(string(d) + "/" + name) }
