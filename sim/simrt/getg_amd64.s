#include "textflag.h"

// func getg() uintptr
// Returns the address of the running goroutine's g structure. It is used only
// as an opaque identity ("which caller is this?"), never dereferenced.
TEXT ·getg(SB),NOSPLIT,$0-8
	MOVQ (TLS), AX
	MOVQ AX, ret+0(FP)
	RET
