// Package signal is the simulator's stand-in for os/signal: handlers are
// registered with the current world, and a "signal" fault of the fault plan
// delivers the signal just before a chosen operation - to the registered
// channels if there are any, otherwise with the default action (the process
// dies at that point, exactly like an injected kill).
package signal

import (
	"context"
	"syscall"

	os "verif.local/sim/simos"
)

var names = map[syscall.Signal]string{
	syscall.SIGINT: "SIGINT", syscall.SIGTERM: "SIGTERM", syscall.SIGHUP: "SIGHUP", syscall.SIGQUIT: "SIGQUIT",
}

var all = []syscall.Signal{syscall.SIGINT, syscall.SIGTERM, syscall.SIGHUP, syscall.SIGQUIT}

func sigs(sig []os.Signal) []syscall.Signal {
	if len(sig) == 0 {
		return all
	}
	var out []syscall.Signal
	for _, s := range sig {
		if x, ok := s.(syscall.Signal); ok {
			if _, known := names[x]; known {
				out = append(out, x)
			}
		}
	}
	return out
}

// Notify causes the simulated process to relay incoming signals to c.
func Notify(c chan<- os.Signal, sig ...os.Signal) {
	if c == nil {
		panic("os/signal: Notify using nil channel")
	}
	w := os.CurrentWorld()
	if w == nil {
		return
	}
	for _, s := range sigs(sig) {
		s := s
		w.NotifySignal(names[s], c, func() {
			select {
			case c <- s:
			default: // like the real package: never blocks
			}
		})
	}
}

// Stop causes no more signals to be relayed to c.
func Stop(c chan<- os.Signal) {
	if w := os.CurrentWorld(); w != nil {
		w.StopSignals(c)
	}
}

// Ignore causes the signals to be ignored.
func Ignore(sig ...os.Signal) {
	if w := os.CurrentWorld(); w != nil {
		for _, s := range sigs(sig) {
			w.IgnoreSignal(names[s])
		}
	}
}

// Ignored reports whether sig is currently ignored.
func Ignored(sig os.Signal) bool {
	w := os.CurrentWorld()
	x, ok := sig.(syscall.Signal)
	return w != nil && ok && w.SignalIgnored(names[x])
}

// Reset undoes the effect of Notify and Ignore for the signals.
func Reset(sig ...os.Signal) {
	if w := os.CurrentWorld(); w != nil {
		for _, s := range sigs(sig) {
			w.ResetSignal(names[s])
		}
	}
}

// NotifyContext returns a copy of the parent context that is done when one of
// the signals arrives, when stop is called, or when the parent is done.
func NotifyContext(parent context.Context, signals ...os.Signal) (context.Context, context.CancelFunc) {
	ctx, cancel := context.WithCancel(parent)
	w := os.CurrentWorld()
	key := new(int)
	if w != nil {
		for _, s := range sigs(signals) {
			w.NotifySignal(names[s], key, cancel)
		}
	}
	return ctx, func() {
		if w != nil {
			w.StopSignals(key)
		}
		cancel()
	}
}
