package world

import (
	"encoding/base64"
	"encoding/json"
	"unicode/utf8"
)

// Bytes marshals as a JSON string when it is valid UTF-8 and as
// {"b64": "..."} otherwise, so that replay files stay readable.
type Bytes []byte

func (b Bytes) MarshalJSON() ([]byte, error) {
	if utf8.Valid(b) {
		return json.Marshal(string(b))
	}
	return json.Marshal(map[string]string{"b64": base64.StdEncoding.EncodeToString(b)})
}

func (b *Bytes) UnmarshalJSON(data []byte) error {
	if len(data) > 0 && data[0] == '"' {
		var s string
		if err := json.Unmarshal(data, &s); err != nil {
			return err
		}
		*b = []byte(s)
		return nil
	}
	var m map[string]string
	if err := json.Unmarshal(data, &m); err != nil {
		return err
	}
	d, err := base64.StdEncoding.DecodeString(m["b64"])
	if err != nil {
		return err
	}
	*b = d
	return nil
}

// NodeSpec describes one node of the initial tree. Parent directories are
// created implicitly (mode 0755).
type NodeSpec struct {
	Path   string `json:"path"`             // absolute
	Kind   string `json:"kind"`             // file | dir | symlink | fifo
	Data   Bytes  `json:"data,omitempty"`   // file content
	Mode   uint32 `json:"mode,omitempty"`   // permission bits; 0 = default (0644 / 0755)
	Target string `json:"target,omitempty"` // symlink target
}

// Fault is one injected fault, addressed by the index of the operation (in
// the world's op log) at which it strikes.
type Fault struct {
	AtOp  int    `json:"at_op"`
	Kind  string `json:"kind"`            // fail | kill | eof | extern (another process appends Data to Path just before the operation) | signal (Errno = SIGINT, SIGTERM, SIGHUP or SIGQUIT, delivered just before the operation)
	Bytes int    `json:"bytes,omitempty"` // read/write ops: bytes let through first (-1: before the op)
	Errno string `json:"errno,omitempty"` // for fail
	// Sticky: once fired on a file write, every later write to a regular file
	// fails with the same errno and writes nothing (disk full, quota or file
	// size limit reached: the condition persists for the rest of the run).
	Sticky bool `json:"sticky,omitempty"`
	// extern: another process changes the tree just before operation AtOp: by
	// default Data is appended to the regular file at Path (its mtime advances);
	// with Errno "REMOVE" the file is removed, with "PARENT-TO-FILE" the directory
	// it lives in is replaced by a plain file.
	Path string `json:"path,omitempty"`
	Data Bytes  `json:"data,omitempty"`
}

// Knobs are the always-legal variations ("buggify") of the environment.
type Knobs struct {
	Seed           uint64 `json:"seed"`
	StdinChunk     int    `json:"stdin_chunk,omitempty"` // 0 = as much as fits; >0 fixed; <0 random 1..-n
	FileChunk      int    `json:"file_chunk,omitempty"`  // same for regular-file reads
	ShuffleReaddir bool   `json:"shuffle_readdir,omitempty"`
	// StdinBlocks: standard input never reaches end of file (a terminal, a pipe
	// nobody closes); a read beyond the supplied bytes blocks for good.
	StdinBlocks bool `json:"stdin_blocks,omitempty"`
	// MaxOpenFiles is the descriptor limit of the simulated process (RLIMIT_NOFILE
	// minus the three streams); 0 = unlimited. open fails with EMFILE when that
	// many handles are open and not yet closed.
	MaxOpenFiles int `json:"max_open_files,omitempty"`
}

// Spec is the explicit, serialisable description of a world. It is what a
// replay file stores.
type Spec struct {
	Nodes  []NodeSpec `json:"nodes"`
	Cwd    string     `json:"cwd"`
	Args   []string   `json:"args"` // without argv[0]
	Stdin  Bytes      `json:"stdin,omitempty"`
	Faults []Fault    `json:"faults,omitempty"`
	Knobs  Knobs      `json:"knobs"`
	// Env is the environment of the process (PWD defaults to Cwd).
	Env map[string]string `json:"env,omitempty"`
}

// Clone makes a deep copy.
func (s Spec) Clone() Spec {
	c := s
	c.Nodes = make([]NodeSpec, len(s.Nodes))
	for i, n := range s.Nodes {
		n.Data = append(Bytes(nil), n.Data...)
		c.Nodes[i] = n
	}
	c.Args = append([]string(nil), s.Args...)
	c.Stdin = append(Bytes(nil), s.Stdin...)
	c.Faults = append([]Fault(nil), s.Faults...)
	if s.Env != nil {
		c.Env = map[string]string{}
		for k, v := range s.Env {
			c.Env[k] = v
		}
	}
	return c
}
