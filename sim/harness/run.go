package harness

import (
	"fmt"
	"regexp"
	"runtime"
	"runtime/debug"
	"strings"
	"time"
	simrand "verif.local/sim/simrand"
	simrandv2 "verif.local/sim/simrandv2"
	simtime "verif.local/sim/simtime"

	simos "verif.local/sim/simos"
	"verif.local/sim/simrt"
	"verif.local/sim/world"
)

// Applier is a parsed patch (patch.File of the library API).
type Applier interface {
	Apply(filename string, src []byte) ([]byte, error)
}

// Program is the real code under simulation, handed over by the glue file
// that lives (virtually) in gopatch's package main.
type Program struct {
	Main       func()
	ParsePatch func(name string, src []byte) (Applier, error)
}

// Outcome of a simulated process.
const (
	OutExit       = "exit"
	OutCrash      = "crash"
	OutKilled     = "killed"
	OutNoProgress = "no-progress"
	OutBlocked    = "blocked"
)

// RunResult is everything observable about one simulated run.
type RunResult struct {
	Outcome string
	Exit    int
	Panic   string
	Stack   string
	Stdout  []byte
	Stderr  []byte
	Log     []world.Op
	Fired   []world.Op
	Final   []world.FileState
	Steps   uint64
	Spin    string // function whose loop did not terminate (no-progress only)
	W       *world.World
}

// LeakedGoroutines counts runs after which goroutines started during the run
// were still alive (blocked forever or still working).
var LeakedGoroutines int

var graveWorld *world.World

// graveyard returns a frozen, empty world: every operation on it fails and has
// no effect.
func graveyard() *world.World {
	if graveWorld == nil {
		graveWorld = world.New(world.Spec{Cwd: "/"})
		graveWorld.Frozen = true
	}
	graveWorld.Log = graveWorld.Log[:0]
	return graveWorld
}

// DefaultBudget is the step budget of a case (bounded liveness): four to five
// orders of magnitude above what a fault-free case of the generated sizes needs.
var DefaultBudget uint64 = 60_000_000

// RunCLI executes gopatch's real main() against a fresh world built from spec.
func RunCLI(p *Program, spec world.Spec) *RunResult {
	return RunCLIHook(p, spec, nil)
}

// RunCLIHook is RunCLI with an invariant hook called after every operation.
func RunCLIHook(p *Program, spec world.Spec, hook func(w *world.World, op *world.Op)) *RunResult {
	w := world.New(spec)
	w.InvariantHook = hook
	simos.SetWorld(w)
	setClockAndRand(spec.Knobs.Seed, spec.Args)
	goroutinesBefore := runtime.NumGoroutine()
	res := &RunResult{W: w, Exit: -1}
	func() {
		defer func() {
			r := recover()
			res.Steps = simrt.End()
			switch v := r.(type) {
			case nil:
				// main returned: the Go runtime would exit with status 0
				res.Outcome = OutExit
				res.Exit = 0
			case world.Exit:
				res.Outcome = OutExit
				res.Exit = v.Code
			case world.Kill:
				res.Outcome = OutKilled
			case world.Blocked:
				res.Outcome = OutBlocked
				res.Stack = string(debug.Stack())
			case simrt.NoProgress:
				res.Outcome = OutNoProgress
				res.Stack = string(debug.Stack())
				res.Spin = SpinningFunc(res.Stack)
			default:
				res.Outcome = OutCrash
				res.Panic = fmt.Sprint(v)
				res.Stack = string(debug.Stack())
			}
		}()
		simrt.BeginSingle(DefaultBudget)
		p.Main()
	}()
	if w.Killed {
		res.Outcome = OutKilled
	}
	if w.Blocked {
		res.Outcome = OutBlocked
	}
	// A changed gopatch may have started goroutines of its own that outlive
	// main() (a read-ahead worker, say). Give them a moment to finish or to block
	// for good, then park the environment on a frozen world: a straggler gets
	// errors from it instead of reaching into the next run's world.
	if runtime.NumGoroutine() > goroutinesBefore {
		for i := 0; i < 400 && runtime.NumGoroutine() > goroutinesBefore; i++ {
			runtime.Gosched()
			time.Sleep(50 * time.Microsecond)
		}
		if runtime.NumGoroutine() > goroutinesBefore {
			LeakedGoroutines++
		}
	}
	simos.SetWorld(graveyard())
	w.InvariantHook = nil
	res.Stdout = w.Stdout
	res.Stderr = w.Stderr
	res.Log = w.Log
	res.Fired = w.FiredOps()
	res.Final = w.Snapshot()
	return res
}

// APIResult is the outcome of one library call.
type APIResult struct {
	Raw    []byte // the slice exactly as returned (may alias library-owned memory)
	Out    []byte
	Err    string
	IsErr  bool
	Panic  string
	Stack  string
	NoProg bool
	Spin   string
	Steps  uint64
}

func (r APIResult) Key() string {
	switch {
	case r.NoProg:
		return "no-progress"
	case r.Panic != "":
		return "panic:" + r.Panic
	case r.IsErr:
		return "err:" + r.Err
	}
	return "ok:" + string(r.Out)
}

// ParseAPI calls patch.Parse under step accounting.
func ParseAPI(p *Program, name string, src []byte) (ap Applier, res APIResult) {
	defer func() {
		r := recover()
		res.Steps = simrt.End()
		switch v := r.(type) {
		case nil:
		case simrt.NoProgress:
			res.NoProg = true
			res.Stack = string(debug.Stack())
			res.Spin = SpinningFunc(res.Stack)
		default:
			res.Panic = fmt.Sprint(v)
			res.Stack = string(debug.Stack())
		}
	}()
	simrt.BeginSingle(DefaultBudget)
	a, err := p.ParsePatch(name, src)
	if err != nil {
		res.IsErr = true
		res.Err = err.Error()
		return nil, res
	}
	return a, res
}

// ApplyAPI calls File.Apply under step accounting.
func ApplyAPI(a Applier, filename string, src []byte) (res APIResult) {
	defer func() {
		r := recover()
		res.Steps = simrt.End()
		switch v := r.(type) {
		case nil:
		case simrt.NoProgress:
			res.NoProg = true
			res.Stack = string(debug.Stack())
			res.Spin = SpinningFunc(res.Stack)
		default:
			res.Panic = fmt.Sprint(v)
			res.Stack = string(debug.Stack())
		}
	}()
	simrt.BeginSingle(DefaultBudget)
	apiSeq++
	setClockAndRand(apiSeq, []string{filename})
	out, err := a.Apply(filename, append([]byte(nil), src...))
	if err != nil {
		res.IsErr = true
		res.Err = err.Error()
		return res
	}
	res.Raw = out
	res.Out = append([]byte(nil), out...)
	return res
}

var (
	reHex     = regexp.MustCompile(`0x[0-9a-fA-F]+`)
	reNum     = regexp.MustCompile(`\b[0-9]+\b`)
	reQuoted  = regexp.MustCompile(`"[^"]*"`)
	reFrameFn = regexp.MustCompile(`(?m)^(github\.com/uber-go/gopatch[^\s(]*(?:\([^)]*\))?[^\s(]*)\(`)
)

// NormalizePanic strips addresses, numbers and quoted values from a panic
// message so that it can serve as part of a finding's signature.
func NormalizePanic(s string) string {
	s = reHex.ReplaceAllString(s, "0x?")
	s = reQuoted.ReplaceAllString(s, `"?"`)
	s = reNum.ReplaceAllString(s, "N")
	if len(s) > 160 {
		s = s[:160]
	}
	return s
}

// SpinningFunc names the gopatch function whose loop did not terminate in the
// most recent no-progress run (stable across where exactly the budget ran out).
func SpinningFunc(stack string) string {
	// a loop in one of the instrumented dependency files is named as such
	if dep := simrt.SpinFunc("golang.org/x/tools/"); dep != "" {
		dep = strings.TrimPrefix(dep, "recursion:")
		return "dep:" + reClosure.ReplaceAllString(strings.TrimPrefix(dep, "golang.org/x/tools/"), "")
	}
	fn := simrt.SpinFunc("github.com/uber-go/gopatch")
	if fn == "" {
		return InnermostRepoFunc(stack)
	}
	rec := strings.HasPrefix(fn, "recursion:")
	fn = strings.TrimPrefix(fn, "recursion:")
	fn = strings.TrimPrefix(fn, "github.com/uber-go/gopatch")
	fn = strings.TrimLeft(fn, "/.")
	fn = reClosure.ReplaceAllString(fn, "")
	if rec {
		fn = "recursion:" + fn
	}
	return fn
}

var reClosure = regexp.MustCompile(`\.func[0-9].*$`)

// InnermostRepoFunc extracts the innermost gopatch function of a stack trace.
func InnermostRepoFunc(stack string) string {
	for _, line := range strings.Split(stack, "\n") {
		if !strings.HasPrefix(line, "github.com/uber-go/gopatch") {
			continue
		}
		fn := line
		if i := strings.LastIndex(fn, "("); i > 0 {
			fn = fn[:i]
		}
		fn = strings.TrimPrefix(fn, "github.com/uber-go/gopatch")
		fn = strings.TrimPrefix(fn, "/")
		fn = strings.TrimPrefix(fn, ".")
		if strings.Contains(fn, "TestVerifWorker") || strings.HasPrefix(fn, "verifGlue") {
			continue
		}
		// closures: keep the enclosing function only
		return reClosure.ReplaceAllString(fn, "")
	}
	return "?"
}

// apiSeq numbers the API calls of the case being evaluated (reset per case, so
// that a replay sees the same sequence).
var apiSeq uint64

// setClockAndRand starts the simulated clock and the package-level random
// generator of a run. Both are a function of the world's seed and of the
// argument vector, so that the same invocation always sees the same values
// (replay) while a file processed alone and the same file processed in a group
// see different ones: up to 48 days apart, odd and even seconds alike.
func init() { world.OnMainGoroutine = simrt.OnMain }

func setClockAndRand(seed uint64, args []string) {
	h := world.Mix(seed, 0x636c6f636b)
	for _, a := range args {
		for i := 0; i < len(a); i++ {
			h = world.Mix(h, uint64(a[i]))
		}
		h = world.Mix(h, 0xff)
	}
	simtime.SetClock(simtime.Duration(h%(1<<22))*simtime.Second + simtime.Duration(h>>40%1000)*simtime.Millisecond)
	simrand.SetSeed(int64(h >> 1))
	simrandv2.SetSeed(h)
}
