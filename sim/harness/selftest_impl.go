package harness

import (
	"bytes"
	"fmt"
	"io/fs"
	"os"
	"os/exec"
	"path/filepath"
	"sort"
	"strings"
	"syscall"

	simfp "verif.local/sim/simfilepath"
	simos "verif.local/sim/simos"
	"verif.local/sim/world"
)

// runSelftests dispatches the fidelity self-tests (the determinism self-test is
// driven by the coordinator through ordinary run jobs with dump_log).
func runSelftests(p *Program, job *Job) {
	st := NewStats()
	var fails []string
	switch job.Prop {
	case "fidelity-fs":
		fails = fidelityFS(job, st)
	case "fidelity-cli":
		fails = fidelityCLI(p, job, st)
	default:
		fails = []string{"unknown selftest " + job.Prop}
	}
	st.Finish()
	send(Msg{T: "done", Stats: st, Text: strings.Join(fails, "\n")})
}

// ---------------------------------------------------------------------------
// (a) SimFS vs the kernel filesystem

type fsOp struct {
	op   string
	a, b string
	data []byte
	flag int
}

func genFSScript(r *world.PRNG) []fsOp {
	long255 := strings.Repeat("n", 255)
	long256 := strings.Repeat("m", 256)
	deep := strings.Repeat(strings.Repeat("d", 200)+"/", 21) + "f.go" // longer than PATH_MAX
	names := []string{"a", "b", "c.go", "d", "a/x", "a/y.go", "a/x/z", "b/k", "d/e", "d/e/f.go", "l1", "l2", "a/l3", "missing", "a/missing/q", long255, long256, "a/" + long255, "a/" + long256, deep}
	pick := func() string { return names[r.Intn(len(names))] }
	var ops []fsOp
	n := r.Range(8, 40)
	for i := 0; i < n; i++ {
		switch r.Intn(17) {
		case 16:
			q := pick()
			if r.Chance(1, 2) {
				q = pick() + "/" + pick()
			}
			ops = append(ops, fsOp{op: "evalsymlinks", a: q})
		case 0, 1:
			ops = append(ops, fsOp{op: "mkdir", a: pick()})
		case 2, 3, 4:
			ops = append(ops, fsOp{op: "writefile", a: pick(), data: []byte(fmt.Sprintf("content-%d-%d", i, r.Intn(1000)))})
		case 5:
			ops = append(ops, fsOp{op: "readfile", a: pick()})
		case 6:
			ops = append(ops, fsOp{op: "rename", a: pick(), b: pick()})
		case 7:
			ops = append(ops, fsOp{op: "remove", a: pick()})
		case 8:
			t := pick()
			if r.Chance(1, 2) {
				t = "../" + t
			}
			ops = append(ops, fsOp{op: "symlink", a: t, b: pick()})
		case 9:
			ops = append(ops, fsOp{op: "stat", a: pick()})
		case 10:
			ops = append(ops, fsOp{op: "lstat", a: pick()})
		case 11:
			ops = append(ops, fsOp{op: "readdir", a: pick()})
		case 12:
			flags := []int{os.O_RDONLY, os.O_WRONLY, os.O_WRONLY | os.O_CREATE, os.O_WRONLY | os.O_CREATE | os.O_EXCL, os.O_WRONLY | os.O_TRUNC, os.O_RDWR | os.O_CREATE | os.O_TRUNC, os.O_WRONLY | os.O_APPEND}
			ops = append(ops, fsOp{op: "open", a: pick(), flag: flags[r.Intn(len(flags))], data: []byte(fmt.Sprintf("w%d", i))})
		case 13:
			ops = append(ops, fsOp{op: "walk", a: pick()})
		case 14:
			ops = append(ops, fsOp{op: "readlink", a: pick()})
		default:
			ops = append(ops, fsOp{op: "removeall", a: pick()})
		}
	}
	ops = append(ops, fsOp{op: "walk", a: "."})
	return ops
}

func errnoOf(err error) string {
	if err == nil {
		return "ok"
	}
	var e syscall.Errno
	switch x := err.(type) {
	case *fs.PathError:
		if en, ok := x.Err.(syscall.Errno); ok {
			e = en
			return x.Op + ":" + world.ErrnoName(e)
		}
		return x.Op + ":" + x.Err.Error()
	case *os.LinkError:
		if en, ok := x.Err.(syscall.Errno); ok {
			return x.Op + ":" + world.ErrnoName(en)
		}
	case *simos.LinkError:
		if en, ok := x.Err.(syscall.Errno); ok {
			return x.Op + ":" + world.ErrnoName(en)
		}
	}
	return "err:" + err.Error()
}

func infoStr(fi fs.FileInfo) string {
	size := fi.Size()
	if fi.IsDir() || fi.Mode()&fs.ModeSymlink != 0 {
		size = 0
	}
	return fmt.Sprintf("%s %s %d", fi.Name(), fi.Mode().Type(), size)
}

// fsAPI abstracts over the real and the simulated os/filepath.
type fsAPI struct {
	root      string
	mkdir     func(string) error
	writeFile func(string, []byte) error
	readFile  func(string) ([]byte, error)
	rename    func(string, string) error
	remove    func(string) error
	removeAll func(string) error
	symlink   func(string, string) error
	stat      func(string) (fs.FileInfo, error)
	lstat     func(string) (fs.FileInfo, error)
	readDir   func(string) ([]fs.DirEntry, error)
	readlink  func(string) (string, error)
	open      func(string, int, []byte) (string, error)
	walk      func(string, func(string, fs.FileInfo, error) error) error
	evalSym   func(string) (string, error)
}

func realAPI(root string) fsAPI {
	return fsAPI{
		root:      root,
		mkdir:     func(p string) error { return os.Mkdir(p, 0o755) },
		writeFile: func(p string, d []byte) error { return os.WriteFile(p, d, 0o644) },
		readFile:  os.ReadFile,
		rename:    os.Rename,
		remove:    os.Remove,
		removeAll: os.RemoveAll,
		symlink:   os.Symlink,
		stat:      os.Stat,
		lstat:     os.Lstat,
		readDir:   os.ReadDir,
		readlink:  os.Readlink,
		open: func(p string, flag int, d []byte) (string, error) {
			f, err := os.OpenFile(p, flag, 0o644)
			if err != nil {
				return "", err
			}
			defer f.Close()
			if flag&(os.O_WRONLY|os.O_RDWR) != 0 {
				_, err = f.Write(d)
				return "wrote", err
			}
			b := make([]byte, 8)
			n, err := f.Read(b)
			if err != nil && err.Error() == "EOF" {
				err = nil
			}
			return string(b[:n]), err
		},
		walk:    func(r string, f func(string, fs.FileInfo, error) error) error { return filepath.Walk(r, f) },
		evalSym: filepath.EvalSymlinks,
	}
}

func simAPI(root string) fsAPI {
	return fsAPI{
		root:      root,
		mkdir:     func(p string) error { return simos.Mkdir(p, 0o755) },
		writeFile: func(p string, d []byte) error { return simos.WriteFile(p, d, 0o644) },
		readFile:  simos.ReadFile,
		rename:    simos.Rename,
		remove:    simos.Remove,
		removeAll: simos.RemoveAll,
		symlink:   simos.Symlink,
		stat:      simos.Stat,
		lstat:     simos.Lstat,
		readDir:   simos.ReadDir,
		readlink:  simos.Readlink,
		open: func(p string, flag int, d []byte) (string, error) {
			f, err := simos.OpenFile(p, flag, 0o644)
			if err != nil {
				return "", err
			}
			defer f.Close()
			if flag&(os.O_WRONLY|os.O_RDWR) != 0 {
				_, err = f.Write(d)
				return "wrote", err
			}
			b := make([]byte, 8)
			n, err := f.Read(b)
			if err != nil && err.Error() == "EOF" {
				err = nil
			}
			return string(b[:n]), err
		},
		walk:    func(r string, f func(string, fs.FileInfo, error) error) error { return simfp.Walk(r, f) },
		evalSym: simfp.EvalSymlinks,
	}
}

func runFSScript(api fsAPI, ops []fsOp) []string {
	var out []string
	p := func(s string) string { return api.root + "/" + s }
	for _, o := range ops {
		var line string
		switch o.op {
		case "mkdir":
			line = errnoOf(api.mkdir(p(o.a)))
		case "writefile":
			line = errnoOf(api.writeFile(p(o.a), o.data))
		case "readfile":
			b, err := api.readFile(p(o.a))
			line = errnoOf(err) + " " + string(b)
		case "rename":
			line = errnoOf(api.rename(p(o.a), p(o.b)))
		case "remove":
			line = errnoOf(api.remove(p(o.a)))
		case "removeall":
			// the real RemoveAll reports varying syscall names; compare the errno only
			line = errnoOf(api.removeAll(p(o.a)))
			if i := strings.Index(line, ":"); i >= 0 {
				line = "removeall" + line[i:]
			}
		case "symlink":
			line = errnoOf(api.symlink(o.a, p(o.b)))
		case "stat":
			fi, err := api.stat(p(o.a))
			line = errnoOf(err)
			if err == nil {
				line += " " + infoStr(fi)
			}
		case "lstat":
			fi, err := api.lstat(p(o.a))
			line = errnoOf(err)
			if err == nil {
				line += " " + infoStr(fi)
			}
		case "readdir":
			es, err := api.readDir(p(o.a))
			line = errnoOf(err)
			for _, e := range es {
				line += " " + e.Name() + ":" + e.Type().String()
			}
		case "readlink":
			t, err := api.readlink(p(o.a))
			line = errnoOf(err) + " " + t
		case "evalsymlinks":
			t, err := api.evalSym(p(o.a))
			line = errnoOf(err) + " " + strings.TrimPrefix(t, api.root)
		case "open":
			s, err := api.open(p(o.a), o.flag, o.data)
			line = errnoOf(err) + " " + s
		case "walk":
			var sb strings.Builder
			err := api.walk(p(o.a), func(path string, info fs.FileInfo, err error) error {
				rel := strings.TrimPrefix(path, api.root)
				if err != nil {
					sb.WriteString(" [" + rel + " " + errnoOf(err) + "]")
					return nil
				}
				sb.WriteString(" " + rel + ":" + info.Mode().Type().String())
				if info.IsDir() && strings.HasSuffix(rel, "/b") {
					return filepath.SkipDir
				}
				return nil
			})
			line = errnoOf(err) + sb.String()
		}
		out = append(out, o.op+" "+o.a+" "+o.b+" => "+line)
	}
	return out
}

func fidelityFS(job *Job, st *Stats) []string {
	var fails []string
	n := job.To
	if n <= 0 {
		n = 2000
	}
	for i := 0; i < n; i++ {
		if i%job.Workers != job.Worker {
			continue
		}
		r := world.NewPRNG(world.Mix(job.Seed, 4242, uint64(i)))
		ops := genFSScript(r)
		dir, err := os.MkdirTemp("", "veriffid")
		if err != nil {
			return []string{"mkdtemp: " + err.Error()}
		}
		// the script root is nested so that "../x" symlink targets stay inside the sandbox
		os.MkdirAll(dir+"/r/r", 0o755)
		realOut := runFSScript(realAPI(dir+"/r/r"), ops)
		os.RemoveAll(dir)
		w := world.New(world.Spec{Cwd: "/sim/fid/r/r", Nodes: []world.NodeSpec{{Path: "/sim/fid/r/r", Kind: "dir"}}})
		simos.SetWorld(w)
		simOut := runFSScript(simAPI("/sim/fid/r/r"), ops)
		simos.SetWorld(nil)
		st.Evaluations++
		st.Ops += uint64(len(ops))
		for k := range realOut {
			a := strings.ReplaceAll(realOut[k], dir, "/sim/fid")
			if a != simOut[k] {
				fails = append(fails, fmt.Sprintf("script %d step %d: kernel %q, SimFS %q", i, k, a, simOut[k]))
				break
			}
			st.Seen(strings.SplitN(simOut[k], " ", 2)[0] + "=>" + strings.SplitN(strings.SplitN(simOut[k], "=> ", 2)[1], " ", 2)[0])
		}
		if len(fails) > 5 {
			break
		}
	}
	return fails
}

// ---------------------------------------------------------------------------
// (b) the simulated program vs the real binary on the real filesystem

func fidelityCLI(p *Program, job *Job, st *Stats) []string {
	var fails []string
	realBin := os.Getenv("VERIF_REAL_BIN")
	if realBin == "" {
		return []string{"VERIF_REAL_BIN not set"}
	}
	n := job.To
	if n <= 0 {
		n = 300
	}
	env := &Env{Prog: p, Stats: NewStats(), Tier: "quick", Quiet: true}
	for i := 0; i < n; i++ {
		if i%job.Workers != job.Worker {
			continue
		}
		// fault-free worlds from three generators
		var c *Case
		switch i % 3 {
		case 0:
			c = Lookup("C06").Gen(env, job.Seed, "quick", i)
		case 1:
			c = Lookup("C12").Gen(env, job.Seed, "quick", i*5) // agree family
			if c != nil && c.Sub != "agree" {
				c = nil
			}
		default:
			c = Lookup("C15").Gen(env, job.Seed, "quick", i)
		}
		if c == nil {
			continue
		}
		skip := false
		for _, nd := range c.Spec.Nodes {
			if nd.Kind == "fifo" || nd.Mode != 0 {
				skip = true
			}
		}
		if skip {
			continue
		}
		spec := c.Spec.Clone()
		spec.Faults = nil
		spec.Knobs = world.Knobs{Seed: spec.Knobs.Seed}
		sim := RunCLI(p, spec)
		if sim.Outcome != OutExit {
			continue
		}
		dir, err := os.MkdirTemp("", "verifcli")
		if err != nil {
			return []string{"mkdtemp: " + err.Error()}
		}
		dir, _ = filepath.EvalSymlinks(dir)
		mapP := func(s string) string { return strings.ReplaceAll(s, SimRoot, dir) }
		for _, nd := range spec.Nodes {
			rp := mapP(nd.Path)
			if len(rp) > 3000 {
				// longer than PATH_MAX allows in one piece: build it component by component
				switch nd.Kind {
				case "dir":
					deepCreate(rp, nil, true)
				case "file":
					deepCreate(rp, []byte(mapP(string(nd.Data))), false)
				}
				continue
			}
			switch nd.Kind {
			case "dir":
				os.MkdirAll(rp, 0o755)
			case "file":
				os.MkdirAll(filepath.Dir(rp), 0o755)
				os.WriteFile(rp, []byte(mapP(string(nd.Data))), 0o644)
			case "symlink":
				os.MkdirAll(filepath.Dir(rp), 0o755)
				os.Symlink(mapP(nd.Target), rp)
			case "hardlink":
				os.MkdirAll(filepath.Dir(rp), 0o755)
				os.Link(mapP(nd.Target), rp)
			}
		}
		var args []string
		for _, a := range spec.Args {
			args = append(args, mapP(a))
		}
		cmd := exec.Command(realBin, args...)
		cmd.Dir = mapP(spec.Cwd)
		cmd.Stdin = bytes.NewReader(spec.Stdin)
		var so, se bytes.Buffer
		cmd.Stdout, cmd.Stderr = &so, &se
		err = cmd.Run()
		exit := 0
		if ee, ok := err.(*exec.ExitError); ok {
			exit = ee.ExitCode()
		} else if err != nil {
			os.RemoveAll(dir)
			return []string{"running the real binary: " + err.Error()}
		}
		// compare
		unmap := func(b []byte) string { return strings.ReplaceAll(string(b), dir, SimRoot) }
		what := ""
		switch {
		case exit != sim.Exit:
			what = fmt.Sprintf("exit status real %d sim %d", exit, sim.Exit)
		case unmap(so.Bytes()) != string(sim.Stdout):
			what = fmt.Sprintf("stdout differs: real %q sim %q", clip(unmap(so.Bytes()), 200), clip(string(sim.Stdout), 200))
		case unmap(se.Bytes()) != string(sim.Stderr):
			what = fmt.Sprintf("stderr differs: real %q sim %q", clip(unmap(se.Bytes()), 200), clip(string(sim.Stderr), 200))
		}
		if what == "" {
			// final trees
			var realFiles []string
			filepath.Walk(dir, func(path string, info fs.FileInfo, err error) error {
				if err == nil && info.Mode().IsRegular() {
					b, _ := os.ReadFile(path)
					realFiles = append(realFiles, strings.ReplaceAll(path, dir, SimRoot)+"\x00"+unmap(b))
				}
				return nil
			})
			var simFiles []string
			for _, s := range sim.Final {
				if len(s.Path) > 3000 {
					continue // the real tree cannot be walked down there with absolute paths either
				}
				if s.Kind == world.KFile {
					simFiles = append(simFiles, s.Path+"\x00"+string(s.Data))
				}
			}
			sort.Strings(realFiles)
			sort.Strings(simFiles)
			if strings.Join(realFiles, "\x01") != strings.Join(simFiles, "\x01") {
				what = "final file trees differ"
				for k := range realFiles {
					if k >= len(simFiles) || realFiles[k] != simFiles[k] {
						what += ": " + clip(realFiles[k], 200)
						break
					}
				}
			}
		}
		os.RemoveAll(dir)
		st.Evaluations++
		st.Runs++
		st.Seen(fmt.Sprintf("%s|%d", c.Prop, sim.Exit))
		if what != "" {
			fails = append(fails, fmt.Sprintf("world %d (%s, args %v): %s", i, c.Prop, spec.Args, what))
			if len(fails) > 5 {
				break
			}
		}
	}
	return fails
}

// deepCreate creates the directory (or the file with the given content) at an
// absolute path that may be longer than PATH_MAX, descending one component at
// a time with openat/mkdirat.
func deepCreate(p string, data []byte, dir bool) error {
	comps := strings.Split(strings.Trim(p, "/"), "/")
	fd, err := syscall.Open("/", syscall.O_RDONLY|syscall.O_DIRECTORY, 0)
	if err != nil {
		return err
	}
	defer func() { syscall.Close(fd) }()
	for i, c := range comps {
		last := i == len(comps)-1
		if last && !dir {
			ffd, err := syscall.Openat(fd, c, syscall.O_WRONLY|syscall.O_CREAT|syscall.O_TRUNC, 0o644)
			if err != nil {
				return err
			}
			_, err = syscall.Write(ffd, data)
			syscall.Close(ffd)
			return err
		}
		syscall.Mkdirat(fd, c, 0o755)
		nfd, err := syscall.Openat(fd, c, syscall.O_RDONLY|syscall.O_DIRECTORY, 0)
		if err != nil {
			return err
		}
		syscall.Close(fd)
		fd = nfd
	}
	return nil
}
