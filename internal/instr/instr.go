// Package instr produces the instrumented, import-redirected virtual copy of
// /repo that the simulator is built from: a go build -overlay file, a modfile
// and the yield-site table. /repo itself is never modified.
package instr

import (
	"bytes"
	"encoding/json"
	"fmt"
	"go/ast"
	"go/parser"
	"go/token"
	"os"
	"path/filepath"
	"sort"
	"strconv"
	"strings"
)

// Redirects maps standard import paths to their simulated stand-ins.
var Redirects = map[string][2]string{
	"os":            {"os", "verif.local/sim/simos"},
	"path/filepath": {"filepath", "verif.local/sim/simfilepath"},
	"io/ioutil":     {"ioutil", "verif.local/sim/simioutil"},
	"os/signal":     {"signal", "verif.local/sim/simsignal"},
	"go/parser":     {"parser", "verif.local/sim/simparser"},
	"time":          {"time", "verif.local/sim/simtime"},
	"math/rand":     {"rand", "verif.local/sim/simrand"},
	"math/rand/v2":  {"rand", "verif.local/sim/simrandv2"},
}

// Unsupported std packages that would bypass the simulated environment.
var Forbidden = map[string]string{
	"os/exec":     "spawns real processes",
	"net":         "real sockets",
	"net/http":    "real sockets",
	"crypto/rand": "randomness the simulator does not decide",
}

// Site describes one yield site.
type Site struct {
	ID   int    `json:"id"`
	File string `json:"file"`
	Line int    `json:"line"`
	Func string `json:"func"`
}

// Result of instrumenting a tree.
type Result struct {
	Sites     []Site
	Files     int
	Overlay   map[string]string
	Bypass    []string // forbidden imports found (file: path)
	TestFiles []string
}

type edit struct {
	off  int
	text string
	del  int
}

// DepRedirects replaces Redirects while a dependency file is instrumented:
// such a file keeps its real os etc.; only its logging is silenced.
var DepRedirects = map[string][2]string{
	"log": {"log", "verif.local/sim/simlog"},
}

var activeRedirects = Redirects

// File instruments one file's source. base is the first site id to use.
func File(fset *token.FileSet, filename string, src []byte, rel string, nextSite *int, sites *[]Site, bypass *[]string) ([]byte, error) {
	f, err := parser.ParseFile(fset, filename, src, parser.ParseComments)
	if err != nil {
		return nil, err
	}
	tf := fset.File(f.Pos())
	var edits []edit
	// import redirection
	for _, imp := range f.Imports {
		p, _ := strconv.Unquote(imp.Path.Value)
		if why, bad := Forbidden[p]; bad {
			*bypass = append(*bypass, fmt.Sprintf("%s imports %q (%s)", rel, p, why))
		}
		rd, ok := activeRedirects[p]
		if !ok {
			continue
		}
		start := tf.Offset(imp.Path.Pos())
		end := tf.Offset(imp.Path.End())
		repl := strconv.Quote(rd[1])
		if imp.Name == nil {
			repl = rd[0] + " " + repl
		}
		edits = append(edits, edit{off: start, del: end - start, text: repl})
	}
	// runtime import, on the package clause line so that line numbers stay
	pkgEnd := tf.Offset(f.Name.End())
	edits = append(edits, edit{off: pkgEnd, text: `;import __simrt "verif.local/sim/simrt"`})

	site := func(pos token.Pos, fn string) string {
		id := *nextSite
		*nextSite++
		*sites = append(*sites, Site{ID: id, File: rel, Line: tf.Line(pos), Func: fn})
		return "__simrt.Y(" + strconv.Itoa(id) + ");"
	}
	var curFunc []string
	fname := func() string {
		if len(curFunc) == 0 {
			return ""
		}
		return curFunc[len(curFunc)-1]
	}
	instrBlock := func(b *ast.BlockStmt, isClauseList bool) {
		if b == nil {
			return
		}
		if !isClauseList {
			edits = append(edits, edit{off: tf.Offset(b.Lbrace) + 1, text: site(b.Lbrace, fname())})
			for i, s := range b.List {
				if i > 0 {
					edits = append(edits, edit{off: tf.Offset(s.Pos()), text: site(s.Pos(), fname())})
				}
			}
		}
	}
	instrClause := func(colon token.Pos, body []ast.Stmt) {
		edits = append(edits, edit{off: tf.Offset(colon) + 1, text: site(colon, fname())})
		for i, s := range body {
			if i > 0 {
				edits = append(edits, edit{off: tf.Offset(s.Pos()), text: site(s.Pos(), fname())})
			}
		}
	}
	var walk func(n ast.Node)
	walk = func(n ast.Node) {
		if n == nil {
			return
		}
		switch x := n.(type) {
		case *ast.FuncDecl:
			name := x.Name.Name
			if x.Recv != nil && len(x.Recv.List) > 0 {
				name = recvName(x.Recv.List[0].Type) + "." + name
			}
			curFunc = append(curFunc, f.Name.Name+"."+name)
			if x.Body != nil {
				instrBlock(x.Body, false)
				for _, s := range x.Body.List {
					walk(s)
				}
			}
			curFunc = curFunc[:len(curFunc)-1]
			return
		case *ast.FuncLit:
			curFunc = append(curFunc, fname()+".func")
			instrBlock(x.Body, false)
			for _, s := range x.Body.List {
				walk(s)
			}
			curFunc = curFunc[:len(curFunc)-1]
			return
		case *ast.SwitchStmt:
			walk(x.Init)
			walk(x.Tag)
			for _, c := range x.Body.List {
				walk(c)
			}
			return
		case *ast.TypeSwitchStmt:
			walk(x.Init)
			walk(x.Assign)
			for _, c := range x.Body.List {
				walk(c)
			}
			return
		case *ast.SelectStmt:
			for _, c := range x.Body.List {
				walk(c)
			}
			return
		case *ast.CaseClause:
			for _, e := range x.List {
				walk(e)
			}
			instrClause(x.Colon, x.Body)
			for _, s := range x.Body {
				walk(s)
			}
			return
		case *ast.CommClause:
			walk(x.Comm)
			instrClause(x.Colon, x.Body)
			for _, s := range x.Body {
				walk(s)
			}
			return
		case *ast.BlockStmt:
			instrBlock(x, false)
			for _, s := range x.List {
				walk(s)
			}
			return
		}
		// generic traversal of children
		children(n, walk)
	}
	for _, d := range f.Decls {
		walk(d)
	}

	sort.SliceStable(edits, func(i, j int) bool { return edits[i].off < edits[j].off })
	var out bytes.Buffer
	pos := 0
	for _, e := range edits {
		if e.off < pos {
			return nil, fmt.Errorf("%s: overlapping edits at %d", rel, e.off)
		}
		out.Write(src[pos:e.off])
		out.WriteString(e.text)
		pos = e.off + e.del
	}
	out.Write(src[pos:])
	out.WriteString("\nvar _ = __simrt.Y\n")
	return out.Bytes(), nil
}

func recvName(e ast.Expr) string {
	switch x := e.(type) {
	case *ast.StarExpr:
		return recvName(x.X)
	case *ast.Ident:
		return x.Name
	case *ast.IndexExpr:
		return recvName(x.X)
	case *ast.IndexListExpr:
		return recvName(x.X)
	}
	return "?"
}

// children calls fn for each direct child node of n.
func children(n ast.Node, fn func(ast.Node)) {
	first := true
	ast.Inspect(n, func(c ast.Node) bool {
		if first {
			first = false
			return true
		}
		if c != nil {
			fn(c)
		}
		return false
	})
}

// Tree instruments every non-test Go file of the module rooted at repo and
// writes the virtual copy under outDir. Extra maps additional overlay entries
// (virtual path -> real file).
// Deps lists dependency source files (absolute paths in the module cache) that
// get yield points too, so that a loop in them is ended by the step budget and
// attributed, instead of hanging the worker until the watchdog kills it.
var Deps []string

func Tree(repo, outDir string, extra map[string]string) (*Result, error) {
	res := &Result{Overlay: map[string]string{}}
	var files []string
	err := filepath.Walk(repo, func(p string, info os.FileInfo, err error) error {
		if err != nil {
			return err
		}
		rel, _ := filepath.Rel(repo, p)
		if info.IsDir() {
			b := filepath.Base(p)
			if p != repo && (b == "tools" && filepath.Dir(rel) == "." || b == "testdata" || b == "vendor" || strings.HasPrefix(b, ".") || strings.HasPrefix(b, "_")) {
				return filepath.SkipDir
			}
			// nested modules are not part of this module
			if p != repo {
				if _, err := os.Stat(filepath.Join(p, "go.mod")); err == nil {
					return filepath.SkipDir
				}
			}
			return nil
		}
		if !strings.HasSuffix(p, ".go") {
			return nil
		}
		if strings.HasSuffix(p, "_test.go") {
			res.TestFiles = append(res.TestFiles, p)
			return nil
		}
		files = append(files, p)
		return nil
	})
	if err != nil {
		return nil, err
	}
	sort.Strings(files)
	next := 1
	ovDir := filepath.Join(outDir, "ov")
	os.RemoveAll(ovDir)
	for _, p := range files {
		rel, _ := filepath.Rel(repo, p)
		src, err := os.ReadFile(p)
		if err != nil {
			return nil, err
		}
		fset := token.NewFileSet()
		out, err := File(fset, p, src, rel, &next, &res.Sites, &res.Bypass)
		if err != nil {
			return nil, fmt.Errorf("instrument %s: %w", rel, err)
		}
		dst := filepath.Join(ovDir, rel)
		if err := os.MkdirAll(filepath.Dir(dst), 0o755); err != nil {
			return nil, err
		}
		if err := os.WriteFile(dst, out, 0o644); err != nil {
			return nil, err
		}
		res.Overlay[p] = dst
		res.Files++
	}
	for i, p := range Deps {
		src, err := os.ReadFile(p)
		if err != nil {
			return nil, fmt.Errorf("dependency file %s: %w", p, err)
		}
		rel := "dep/" + filepath.Base(filepath.Dir(p)) + "/" + filepath.Base(p)
		activeRedirects = DepRedirects
		var noBypass []string
		out, err := File(token.NewFileSet(), p, src, rel, &next, &res.Sites, &noBypass)
		activeRedirects = Redirects
		if err != nil {
			return nil, fmt.Errorf("instrument %s: %w", rel, err)
		}
		dst := filepath.Join(ovDir, fmt.Sprintf("dep%d_%s", i, filepath.Base(p)))
		if err := os.MkdirAll(filepath.Dir(dst), 0o755); err != nil {
			return nil, err
		}
		if err := os.WriteFile(dst, out, 0o644); err != nil {
			return nil, err
		}
		res.Overlay[p] = dst
		res.Files++
	}
	// the repository's own tests are not part of the simulated program
	for _, t := range res.TestFiles {
		res.Overlay[t] = ""
	}
	for k, v := range extra {
		res.Overlay[k] = v
	}
	ov := struct{ Replace map[string]string }{res.Overlay}
	b, _ := json.MarshalIndent(ov, "", " ")
	if err := os.WriteFile(filepath.Join(outDir, "overlay.json"), b, 0o644); err != nil {
		return nil, err
	}
	sb, _ := json.Marshal(res.Sites)
	if err := os.WriteFile(filepath.Join(outDir, "sites.json"), sb, 0o644); err != nil {
		return nil, err
	}
	return res, nil
}
