package harness

import (
	"encoding/json"
	"fmt"
	"os"
	"runtime/debug"
	"runtime/pprof"
	"syscall"
	"time"
)

// Job is what the coordinator asks of one worker process.
type Job struct {
	Mode     string   `json:"mode"` // run | replay | selftest
	Prop     string   `json:"prop"`
	Tier     string   `json:"tier"`
	Seed     uint64   `json:"seed"`
	Worker   int      `json:"worker"`
	Workers  int      `json:"workers"`
	From     int      `json:"from"`
	To       int      `json:"to"`       // exclusive
	Deadline int64    `json:"deadline"` // unix seconds; 0 = none
	Known    []string `json:"known"`    // signatures of open known findings (not minimised)
	Replay   string   `json:"replay"`   // file for mode=replay
	Only     int      `json:"only"`     // run only this case index (>=0)
	DumpLog  bool     `json:"dump_log"`
	MaxViol  int      `json:"max_viol"`
	// Spread: the indices From..To are spread evenly over the whole index range of
	// the tier (case number = index * stride), so that a small sample touches every
	// family of the check (used by the determinism self-test)
	Spread bool `json:"spread,omitempty"`
}

// Msg is one line of the worker->coordinator protocol.
type Msg struct {
	T        string  `json:"t"` // start | viol | done | replay | log
	I        int     `json:"i,omitempty"`
	Replay   *Replay `json:"replay,omitempty"`
	Stats    *Stats  `json:"stats,omitempty"`
	Hash     string  `json:"hash,omitempty"`
	Repro    bool    `json:"repro,omitempty"`
	Text     string  `json:"text,omitempty"`
	Last     int     `json:"last,omitempty"`
	TimedOut bool    `json:"timed_out,omitempty"`
}

var out *os.File

func send(m Msg) {
	b, _ := json.Marshal(m)
	b = append(b, '\n')
	out.Write(b)
}

// WorkerMain is the entry point of a worker process; it is called from the
// glue test function inside the simulation binary.
func WorkerMain(p *Program) {
	js := os.Getenv("VERIF_JOB")
	if js == "" {
		return
	}
	var job Job
	if err := json.Unmarshal([]byte(js), &job); err != nil {
		fmt.Fprintln(os.Stderr, "verif worker: bad job:", err)
		os.Exit(2)
	}
	out = os.NewFile(3, "verif-out")
	if out == nil {
		out = os.Stdout
	}
	if pf := os.Getenv("VERIF_CPUPROFILE"); pf != "" {
		if f, err := os.Create(pf); err == nil {
			pprof.StartCPUProfile(f)
			defer func() { pprof.StopCPUProfile(); f.Close() }()
		}
	}
	if os.Getenv("VERIF_NO_RLIMIT") == "" {
		lim := syscall.Rlimit{Cur: 8 << 30, Max: 8 << 30}
		syscall.Setrlimit(syscall.RLIMIT_AS, &lim)
	}
	debug.SetMaxStack(256 << 20)
	debug.SetGCPercent(200)
	switch job.Mode {
	case "run":
		workerRun(p, &job)
	case "replay":
		workerReplay(p, &job)
	case "info":
		chk := Lookup(job.Prop)
		if chk == nil {
			fmt.Fprintln(os.Stderr, "verif worker: unknown property", job.Prop)
			os.Exit(2)
		}
		b, _ := json.Marshal(chk.Describe())
		send(Msg{T: "done", Text: string(b)})
	case "selftest":
		workerSelftest(p, &job)
	default:
		fmt.Fprintln(os.Stderr, "verif worker: bad mode", job.Mode)
		os.Exit(2)
	}
	pprof.StopCPUProfile()
	os.Exit(0)
}

func workerRun(p *Program, job *Job) {
	chk := Lookup(job.Prop)
	if chk == nil {
		fmt.Fprintln(os.Stderr, "verif worker: unknown property", job.Prop)
		os.Exit(2)
	}
	env := &Env{Prog: p, Stats: NewStats(), Tier: job.Tier, Deadline: job.Deadline}
	known := map[string]bool{}
	for _, k := range job.Known {
		known[k] = true
	}
	seenSig := map[string]bool{}
	nviol := 0
	last := -1
	timedOut := false
	hasher := newLogHasher()
	if job.To <= 0 {
		job.To = chk.NumCases(job.Tier)
	}
	stride := 1
	if job.Spread && job.To > 0 {
		if stride = chk.NumCases(job.Tier) / job.To; stride < 1 {
			stride = 1
		}
	}
	// thorough tier: the cases are visited in a fixed pseudo-random order (a
	// multiplicative permutation of the index range), so that the time budget,
	// when it ends the run early, has sampled every family of the check instead
	// of cutting off the ones with the highest indices
	total := chk.NumCases(job.Tier)
	perm := func(i int) int { return i }
	if job.Tier == "thorough" && !job.Spread && total > 1 {
		mult := 1_000_003
		for total%mult == 0 {
			mult += 2
		}
		perm = func(i int) int { return int(int64(i) * int64(mult) % int64(total)) }
	}
	for i := job.From; i < job.To; i++ {
		if job.Only >= 0 {
			if i != job.Only {
				continue
			}
		} else if i%job.Workers != job.Worker {
			continue
		}
		if job.Deadline > 0 && time.Now().Unix() > job.Deadline {
			timedOut = true
			break
		}
		c := chk.Gen(env, job.Seed, job.Tier, perm(i)*stride)
		if c == nil {
			continue
		}
		if dp := os.Getenv("VERIF_DUMP_CASE"); dp != "" {
			// debugging aid: the generated case, before it is evaluated
			b, _ := json.MarshalIndent(c, "", " ")
			os.WriteFile(dp, b, 0o644)
		}
		send(Msg{T: "start", I: i})
		env.Stats.Evaluations++
		apiSeq = 0
		vs := chk.Eval(env, c)
		last = i
		if h := hasher.note(i, c, vs); job.DumpLog {
			send(Msg{T: "log", I: i, Hash: h})
		}
		for _, v := range vs {
			v.Prop = job.Prop
			if known[v.Signature] {
				env.Stats.Known[v.Signature]++
				continue
			}
			if seenSig[v.Signature] {
				continue
			}
			seenSig[v.Signature] = true
			nviol++
			vc := c
			if v.Case != nil {
				vc = v.Case
				v.Case = nil
			}
			rp := &Replay{Violation: v, Case: vc}
			if job.MaxViol == 0 || nviol <= job.MaxViol {
				rp = Minimise(env, chk, vc, v)
			}
			send(Msg{T: "viol", I: i, Replay: rp})
		}
	}
	env.Stats.Finish()
	send(Msg{T: "done", Stats: env.Stats, Hash: hasher.sum(), Last: last, TimedOut: timedOut})
}

func workerReplay(p *Program, job *Job) {
	b, err := os.ReadFile(job.Replay)
	if err != nil {
		fmt.Fprintln(os.Stderr, "verif worker:", err)
		os.Exit(2)
	}
	var rp Replay
	if err := json.Unmarshal(b, &rp); err != nil {
		fmt.Fprintln(os.Stderr, "verif worker: bad replay file:", err)
		os.Exit(2)
	}
	chk := Lookup(rp.Case.Prop)
	if chk == nil {
		fmt.Fprintln(os.Stderr, "verif worker: unknown property", rp.Case.Prop)
		os.Exit(2)
	}
	env := &Env{Prog: p, Stats: NewStats(), Tier: "quick"}
	send(Msg{T: "start", I: rp.Case.Idx})
	apiSeq = 0
	vs := chk.Eval(env, rp.Case)
	repro := false
	text := ""
	for _, v := range vs {
		text += v.Oracle + " | " + v.Signature + " | " + v.Detail + "\n"
		if v.Signature == rp.Violation.Signature {
			repro = true
		}
	}
	send(Msg{T: "replay", Repro: repro, Text: text})
}
