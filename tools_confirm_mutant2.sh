#!/bin/bash
# usage: tools_confirm_mutant2.sh <prop> <wave-out-dir> <mK>   (generic variant of tools_confirm_mutant.sh)
prop=$1; out=$2; m=$3
wt=/tmp/mut/$prop-w1; d=$out/$m
export GOFLAGS=-mod=mod GOPROXY=off GOSUMDB=off GOTOOLCHAIN=local
cd $wt || exit 2
git checkout -q -- . ; git clean -fdq
[ -f $d/demo.sh ] || { echo "$prop/$m: no demo.sh"; exit 2; }
(cd $wt && bash $d/demo.sh $wt) >/tmp/confirm_clean.txt 2>&1; rc_clean=$?
git apply $d/patch.diff || { echo "$prop/$m: patch does not apply"; exit 2; }
go build ./... >/tmp/confirm_build.txt 2>&1 || { echo "$prop/$m: BUILD FAILS"; git checkout -q -- .; git clean -fdq; exit 2; }
ntest=$(go test -vet=off -count=1 ./... 2>&1 | grep -c "^FAIL")
(cd $wt && bash $d/demo.sh $wt) >/tmp/confirm_patch.txt 2>&1; rc_patch=$?
git checkout -q -- . ; git clean -fdq
echo "$prop/$m: tests_failing_pkgs=$ntest demo_clean_rc=$rc_clean demo_patched_rc=$rc_patch"
